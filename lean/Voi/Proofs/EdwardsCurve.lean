/-
C03 foundation: the twisted Edwards curve  -x² + y² = 1 + d x² y²  (a = -1) over an arbitrary
field `K` in which -1 = i² is a square, `d` is a NON-square and 2 ≠ 0.

* `EdCurve K`           the parameters (d, i) with their side conditions
* `EdPoint c`           affine solutions of the curve equation
* `denoms_ne_zero`      COMPLETENESS: for curve points the denominators 1 ± d x₁x₂y₁y₂ never vanish
* `EdPoint.add/neg/zero` the unified addition law (the one of `Voi.Spec.Pt.add`), CLOSURE included
* `add_comm', zero_add', neg_add_cancel', add_assoc'` and finally
  `instance : AddCommGroup (EdPoint c)`.

Closure and associativity use the sympy-generated certificates of `Voi.Proofs.EdwardsCerts`.
The projective (extended-coordinate) formulas add-2008-hwcd-3 / dbl-2008-hwcd are in
`Voi.Proofs.EdwardsExt`; `Voi.Proofs.Ed25519Group` instantiates K = ZMod (2^255 - 19).

Mathlib is used here; this module must not be imported by Voi/Drv/* or Main.lean.
-/
import Mathlib.Tactic.LinearCombination
import Mathlib.Tactic.FieldSimp
import Mathlib.Tactic.Ring
import Mathlib.Tactic.NormNum
import Mathlib.Algebra.Field.Basic
import Mathlib.Algebra.Group.Even
import Voi.Proofs.EdwardsCerts
namespace Voi.Proofs

/-- parameters of an a = -1 twisted Edwards curve with a complete addition law -/
structure EdCurve (K : Type*) [Field K] where
  d : K
  i : K
  i_sq : i ^ 2 = -1
  d_nonsq : ¬ IsSquare d
  two_ne : (2 : K) ≠ 0

variable {K : Type*} [Field K]

/-- completeness of the a = -1 twisted Edwards addition law when -1 = i², d is a non-square, char ≠ 2:
for curve points, `d x₁x₂y₁y₂` is never ±1 -/
theorem ed_prod_ne (d i x1 y1 x2 y2 : K) (hi : i ^ 2 = -1) (hd : ¬ IsSquare d) (h2ne : (2 : K) ≠ 0)
    (h1 : -x1 ^ 2 + y1 ^ 2 = 1 + d * x1 ^ 2 * y1 ^ 2) (h2 : -x2 ^ 2 + y2 ^ 2 = 1 + d * x2 ^ 2 * y2 ^ 2)
    (ε : K) (hε : ε ^ 2 = 1) : d * x1 * x2 * y1 * y2 ≠ ε := by
  intro he
  have hε0 : ε ≠ 0 := by
    intro h; rw [h] at hε; norm_num at hε
  have hx1 : x1 ≠ 0 := by
    rintro rfl; apply hε0; rw [← he]; ring
  have hy1 : y1 ≠ 0 := by
    rintro rfl; apply hε0; rw [← he]; ring
  have key (s : K) (hs : s ^ 2 = 1) :
      (i * x1 + s * ε * y1) ^ 2 = d * x1 ^ 2 * y1 ^ 2 * (i * x2 + s * y2) ^ 2 := by
    linear_combination (x1^2 - d*x1^2*y1^2*x2^2) * hi + (ε^2*y1^2 - d*x1^2*y1^2*y2^2) * hs
      + (y1^2 - 1) * hε + (-(2*i*s*x1*y1) - (d*x1*x2*y1*y2 + ε)) * he + h1 - (d*x1^2*y1^2) * h2
  by_cases hp : i * x2 + y2 = 0
  · by_cases hm : i * x2 - y2 = 0
    · have hy2 : y2 = 0 := by
        have : (2:K) * y2 = 0 := by linear_combination hp - hm
        exact (mul_eq_zero.mp this).resolve_left h2ne
      apply hε0; rw [← he, hy2]; ring
    · apply hd
      have hk := key (-1) (by ring)
      refine ⟨(i * x1 - ε * y1) / (x1 * y1 * (i * x2 - y2)), ?_⟩
      field_simp
      linear_combination (-1 : K) * hk
  · apply hd
    have hk := key 1 (by ring)
    refine ⟨(i * x1 + ε * y1) / (x1 * y1 * (i * x2 + y2)), ?_⟩
    field_simp
    linear_combination (-1 : K) * hk

/-- affine points of the curve `c` -/
@[ext] structure EdPoint (c : EdCurve K) where
  x : K
  y : K
  on : -x ^ 2 + y ^ 2 = 1 + c.d * x ^ 2 * y ^ 2

namespace EdPoint
variable {c : EdCurve K}

/-- COMPLETENESS: both denominators of the addition law are non-zero for any two curve points
(including P = ±Q, the identity, points of small order …). -/
theorem denoms_ne_zero (P Q : EdPoint c) :
    1 + c.d * P.x * Q.x * P.y * Q.y ≠ 0 ∧ 1 - c.d * P.x * Q.x * P.y * Q.y ≠ 0 := by
  constructor
  · intro h
    exact ed_prod_ne c.d c.i P.x P.y Q.x Q.y c.i_sq c.d_nonsq c.two_ne P.on Q.on (-1) (by ring)
      (by linear_combination h)
  · intro h
    exact ed_prod_ne c.d c.i P.x P.y Q.x Q.y c.i_sq c.d_nonsq c.two_ne P.on Q.on 1 (by ring)
      (by linear_combination -h)

theorem denom_add_ne_zero (P Q : EdPoint c) : 1 + c.d * P.x * Q.x * P.y * Q.y ≠ 0 :=
  (denoms_ne_zero P Q).1
theorem denom_sub_ne_zero (P Q : EdPoint c) : 1 - c.d * P.x * Q.x * P.y * Q.y ≠ 0 :=
  (denoms_ne_zero P Q).2

/-- CLOSURE in raw form: the sum of two curve points satisfies the curve equation -/
theorem closure (P Q : EdPoint c) :
    -((P.x * Q.y + P.y * Q.x) / (1 + c.d * P.x * Q.x * P.y * Q.y)) ^ 2
      + ((P.y * Q.y + P.x * Q.x) / (1 - c.d * P.x * Q.x * P.y * Q.y)) ^ 2
    = 1 + c.d * ((P.x * Q.y + P.y * Q.x) / (1 + c.d * P.x * Q.x * P.y * Q.y)) ^ 2
        * ((P.y * Q.y + P.x * Q.x) / (1 - c.d * P.x * Q.x * P.y * Q.y)) ^ 2 := by
  have ha := denom_add_ne_zero P Q
  have hb := denom_sub_ne_zero P Q
  have h1 : -c.d * P.x ^ 2 * P.y ^ 2 - P.x ^ 2 + P.y ^ 2 - 1 = 0 := by linear_combination P.on
  have h2 : -c.d * Q.x ^ 2 * Q.y ^ 2 - Q.x ^ 2 + Q.y ^ 2 - 1 = 0 := by linear_combination Q.on
  have hc := EdCert.closure_num c.d P.x P.y Q.x Q.y h1 h2
  set a := 1 + c.d * P.x * Q.x * P.y * Q.y with ha_def
  set b := 1 - c.d * P.x * Q.x * P.y * Q.y with hb_def
  set nx := P.x * Q.y + P.y * Q.x with hnx
  set ny := P.y * Q.y + P.x * Q.x with hny
  have hc' : -nx ^ 2 * b ^ 2 + ny ^ 2 * a ^ 2 - a ^ 2 * b ^ 2 - c.d * nx ^ 2 * ny ^ 2 = 0 := by
    rw [← hc, hnx, hny, ha_def, hb_def]; ring
  have : (-(nx / a) ^ 2 + (ny / b) ^ 2 - (1 + c.d * (nx / a) ^ 2 * (ny / b) ^ 2)) * (a ^ 2 * b ^ 2) = 0 := by
    rw [← hc']; field_simp; ring
  have hab : a ^ 2 * b ^ 2 ≠ 0 := mul_ne_zero (pow_ne_zero 2 ha) (pow_ne_zero 2 hb)
  have := (mul_eq_zero.mp this).resolve_right hab
  linear_combination this

/-- the neutral element (0, 1) -/
def zero : EdPoint c := ⟨0, 1, by ring⟩

/-- negation (x, y) ↦ (-x, y) -/
def neg (P : EdPoint c) : EdPoint c := ⟨-P.x, P.y, by linear_combination P.on⟩

/-- the unified (and here complete) addition law -/
def add (P Q : EdPoint c) : EdPoint c :=
  ⟨(P.x * Q.y + P.y * Q.x) / (1 + c.d * P.x * Q.x * P.y * Q.y),
   (P.y * Q.y + P.x * Q.x) / (1 - c.d * P.x * Q.x * P.y * Q.y), closure P Q⟩

instance : Zero (EdPoint c) := ⟨zero⟩
instance : Neg (EdPoint c) := ⟨neg⟩
instance : Add (EdPoint c) := ⟨add⟩

@[simp] theorem zero_x : (0 : EdPoint c).x = 0 := rfl
@[simp] theorem zero_y : (0 : EdPoint c).y = 1 := rfl
@[simp] theorem neg_x (P : EdPoint c) : (-P).x = -P.x := rfl
@[simp] theorem neg_y (P : EdPoint c) : (-P).y = P.y := rfl
theorem add_x (P Q : EdPoint c) :
    (P + Q).x = (P.x * Q.y + P.y * Q.x) / (1 + c.d * P.x * Q.x * P.y * Q.y) := rfl
theorem add_y (P Q : EdPoint c) :
    (P + Q).y = (P.y * Q.y + P.x * Q.x) / (1 - c.d * P.x * Q.x * P.y * Q.y) := rfl

/-- COMMUTATIVITY -/
protected theorem add_comm' (P Q : EdPoint c) : P + Q = Q + P := by
  ext
  · rw [add_x, add_x]; congr 1 <;> ring
  · rw [add_y, add_y]; congr 1 <;> ring

/-- IDENTITY -/
protected theorem zero_add' (P : EdPoint c) : 0 + P = P := by
  ext
  · rw [add_x]; simp
  · rw [add_y]; simp

protected theorem add_zero' (P : EdPoint c) : P + 0 = P := by
  rw [EdPoint.add_comm', EdPoint.zero_add']

/-- INVERSE -/
protected theorem neg_add_cancel' (P : EdPoint c) : -P + P = 0 := by
  have hb := denom_sub_ne_zero (-P) P
  ext
  · rw [add_x]; simp only [neg_x, neg_y, zero_x]
    rw [div_eq_zero_iff]; left; ring
  · rw [add_y, zero_y, div_eq_one_iff_eq hb]; simp only [neg_x, neg_y]
    linear_combination P.on

/-- clearing the inner denominators `a`, `b` (abstract atoms) in the outer denominator; `s = ±1` -/
private theorem aux_den (d nx ny a b x3 y3 s : K) (ha : a ≠ 0) (hb : b ≠ 0) :
    (1 + s * (d * (nx / a) * x3 * (ny / b) * y3)) * (a * b) = a * b + s * (d * nx * ny * x3 * y3) := by
  field_simp

private theorem aux_num (u v a b x3 y3 : K) (ha : a ≠ 0) (hb : b ≠ 0) :
    ((u / a) * y3 + (v / b) * x3) * (a * b) = u * b * y3 + v * a * x3 := by
  field_simp

/-- the x-coordinate of (P₁+P₂)+P₃ as one fraction of polynomials in the coordinates -/
private theorem add_add_x (P Q R : EdPoint c) :
    ((P + Q) + R).x *
      ((1 + c.d * P.x * Q.x * P.y * Q.y) * (1 - c.d * P.x * Q.x * P.y * Q.y)
        + c.d * (P.x * Q.y + P.y * Q.x) * (P.y * Q.y + P.x * Q.x) * R.x * R.y)
    = (P.x * Q.y + P.y * Q.x) * (1 - c.d * P.x * Q.x * P.y * Q.y) * R.y
        + (P.y * Q.y + P.x * Q.x) * (1 + c.d * P.x * Q.x * P.y * Q.y) * R.x := by
  have ha := denom_add_ne_zero P Q
  have hb := denom_sub_ne_zero P Q
  have hc := denom_add_ne_zero (P + Q) R
  have hden := aux_den c.d (P.x * Q.y + P.y * Q.x) (P.y * Q.y + P.x * Q.x) _ _ R.x R.y 1 ha hb
  have hnum := aux_num (P.x * Q.y + P.y * Q.x) (P.y * Q.y + P.x * Q.x) _ _ R.x R.y ha hb
  have hx : ((P + Q) + R).x * (1 + c.d * (P + Q).x * R.x * (P + Q).y * R.y)
      = (P + Q).x * R.y + (P + Q).y * R.x := by
    rw [add_x (P + Q) R]; exact div_mul_cancel₀ _ hc
  rw [add_x P Q, add_y P Q] at hx
  linear_combination
    ((1 + c.d * P.x * Q.x * P.y * Q.y) * (1 - c.d * P.x * Q.x * P.y * Q.y)) * hx
      - ((P + Q) + R).x * hden + hnum

private theorem add_add_y (P Q R : EdPoint c) :
    ((P + Q) + R).y *
      ((1 + c.d * P.x * Q.x * P.y * Q.y) * (1 - c.d * P.x * Q.x * P.y * Q.y)
        - c.d * (P.x * Q.y + P.y * Q.x) * (P.y * Q.y + P.x * Q.x) * R.x * R.y)
    = (P.y * Q.y + P.x * Q.x) * (1 + c.d * P.x * Q.x * P.y * Q.y) * R.y
        + (P.x * Q.y + P.y * Q.x) * (1 - c.d * P.x * Q.x * P.y * Q.y) * R.x := by
  have ha := denom_add_ne_zero P Q
  have hb := denom_sub_ne_zero P Q
  have hc := denom_sub_ne_zero (P + Q) R
  have hden := aux_den c.d (P.x * Q.y + P.y * Q.x) (P.y * Q.y + P.x * Q.x) _ _ R.x R.y (-1) ha hb
  have hnum := aux_num (P.x * Q.y + P.y * Q.x) (P.y * Q.y + P.x * Q.x) _ _ R.y R.x ha hb
  have hy : ((P + Q) + R).y * (1 - c.d * (P + Q).x * R.x * (P + Q).y * R.y)
      = (P + Q).y * R.y + (P + Q).x * R.x := by
    rw [add_y (P + Q) R]; exact div_mul_cancel₀ _ hc
  rw [add_x P Q, add_y P Q] at hy
  linear_combination
    ((1 + c.d * P.x * Q.x * P.y * Q.y) * (1 - c.d * P.x * Q.x * P.y * Q.y)) * hy
      - ((P + Q) + R).y * hden + hnum

/-- the common denominators above are non-zero -/
private theorem add_add_x_den (P Q R : EdPoint c) :
    (1 + c.d * P.x * Q.x * P.y * Q.y) * (1 - c.d * P.x * Q.x * P.y * Q.y)
        + c.d * (P.x * Q.y + P.y * Q.x) * (P.y * Q.y + P.x * Q.x) * R.x * R.y ≠ 0 := by
  have ha := denom_add_ne_zero P Q
  have hb := denom_sub_ne_zero P Q
  have hc := denom_add_ne_zero (P + Q) R
  have hden := aux_den c.d (P.x * Q.y + P.y * Q.x) (P.y * Q.y + P.x * Q.x) _ _ R.x R.y 1 ha hb
  rw [add_x P Q, add_y P Q] at hc
  intro h
  have : (1 + c.d * ((P.x * Q.y + P.y * Q.x) / (1 + c.d * P.x * Q.x * P.y * Q.y)) * R.x *
      ((P.y * Q.y + P.x * Q.x) / (1 - c.d * P.x * Q.x * P.y * Q.y)) * R.y)
      * ((1 + c.d * P.x * Q.x * P.y * Q.y) * (1 - c.d * P.x * Q.x * P.y * Q.y)) = 0 := by
    linear_combination hden + h
  exact mul_ne_zero hc (mul_ne_zero ha hb) this

private theorem add_add_y_den (P Q R : EdPoint c) :
    (1 + c.d * P.x * Q.x * P.y * Q.y) * (1 - c.d * P.x * Q.x * P.y * Q.y)
        - c.d * (P.x * Q.y + P.y * Q.x) * (P.y * Q.y + P.x * Q.x) * R.x * R.y ≠ 0 := by
  have ha := denom_add_ne_zero P Q
  have hb := denom_sub_ne_zero P Q
  have hc := denom_sub_ne_zero (P + Q) R
  have hden := aux_den c.d (P.x * Q.y + P.y * Q.x) (P.y * Q.y + P.x * Q.x) _ _ R.x R.y (-1) ha hb
  rw [add_x P Q, add_y P Q] at hc
  intro h
  have : (1 - c.d * ((P.x * Q.y + P.y * Q.x) / (1 + c.d * P.x * Q.x * P.y * Q.y)) * R.x *
      ((P.y * Q.y + P.x * Q.x) / (1 - c.d * P.x * Q.x * P.y * Q.y)) * R.y)
      * ((1 + c.d * P.x * Q.x * P.y * Q.y) * (1 - c.d * P.x * Q.x * P.y * Q.y)) = 0 := by
    linear_combination hden + h
  exact mul_ne_zero hc (mul_ne_zero ha hb) this

/-- ASSOCIATIVITY -/
protected theorem add_assoc' (P Q R : EdPoint c) : (P + Q) + R = P + (Q + R) := by
  have h1 : -c.d * P.x ^ 2 * P.y ^ 2 - P.x ^ 2 + P.y ^ 2 - 1 = 0 := by linear_combination P.on
  have h2 : -c.d * Q.x ^ 2 * Q.y ^ 2 - Q.x ^ 2 + Q.y ^ 2 - 1 = 0 := by linear_combination Q.on
  have h3 : -c.d * R.x ^ 2 * R.y ^ 2 - R.x ^ 2 + R.y ^ 2 - 1 = 0 := by linear_combination R.on
  -- right-hand side through commutativity: P + (Q + R) = (Q + R) + P
  have hr : P + (Q + R) = (Q + R) + P := EdPoint.add_comm' _ _
  rw [hr]
  ext
  · have hL := add_add_x P Q R
    have hR := add_add_x Q R P
    have hLd := add_add_x_den P Q R
    have hRd := add_add_x_den Q R P
    have hcert := EdCert.assoc_num_x c.d P.x P.y Q.x Q.y R.x R.y h1 h2 h3
    set DL := (1 + c.d * P.x * Q.x * P.y * Q.y) * (1 - c.d * P.x * Q.x * P.y * Q.y)
        + c.d * (P.x * Q.y + P.y * Q.x) * (P.y * Q.y + P.x * Q.x) * R.x * R.y with hDL
    set DR := (1 + c.d * Q.x * R.x * Q.y * R.y) * (1 - c.d * Q.x * R.x * Q.y * R.y)
        + c.d * (Q.x * R.y + Q.y * R.x) * (Q.y * R.y + Q.x * R.x) * P.x * P.y with hDR
    have : (((P + Q) + R).x - ((Q + R) + P).x) * (DL * DR) = 0 := by
      have e : (((P + Q) + R).x - ((Q + R) + P).x) * (DL * DR)
          = (((P + Q) + R).x * DL) * DR - (((Q + R) + P).x * DR) * DL := by ring
      rw [e, hL, hR, hDL, hDR]
      linear_combination hcert
    have := (mul_eq_zero.mp this).resolve_right (mul_ne_zero hLd hRd)
    exact sub_eq_zero.mp this
  · have hL := add_add_y P Q R
    have hR := add_add_y Q R P
    have hLd := add_add_y_den P Q R
    have hRd := add_add_y_den Q R P
    have hcert := EdCert.assoc_num_y c.d P.x P.y Q.x Q.y R.x R.y h1 h2 h3
    set DL := (1 + c.d * P.x * Q.x * P.y * Q.y) * (1 - c.d * P.x * Q.x * P.y * Q.y)
        - c.d * (P.x * Q.y + P.y * Q.x) * (P.y * Q.y + P.x * Q.x) * R.x * R.y with hDL
    set DR := (1 + c.d * Q.x * R.x * Q.y * R.y) * (1 - c.d * Q.x * R.x * Q.y * R.y)
        - c.d * (Q.x * R.y + Q.y * R.x) * (Q.y * R.y + Q.x * R.x) * P.x * P.y with hDR
    have : (((P + Q) + R).y - ((Q + R) + P).y) * (DL * DR) = 0 := by
      have e : (((P + Q) + R).y - ((Q + R) + P).y) * (DL * DR)
          = (((P + Q) + R).y * DL) * DR - (((Q + R) + P).y * DR) * DL := by ring
      rw [e, hL, hR, hDL, hDR]
      linear_combination hcert
    have := (mul_eq_zero.mp this).resolve_right (mul_ne_zero hLd hRd)
    exact sub_eq_zero.mp this

/-- The points of a complete a = -1 twisted Edwards curve form a commutative group under the
unified addition law. -/
instance instAddCommGroup : AddCommGroup (EdPoint c) where
  add := (· + ·)
  zero := 0
  neg := Neg.neg
  add_assoc := EdPoint.add_assoc'
  zero_add := EdPoint.zero_add'
  add_zero := EdPoint.add_zero'
  neg_add_cancel := EdPoint.neg_add_cancel'
  add_comm := EdPoint.add_comm'
  nsmul := nsmulRec
  zsmul := zsmulRec

/-- subtraction is addition of the negative -/
theorem sub_def (P Q : EdPoint c) : P - Q = P + -Q := sub_eq_add_neg P Q

/-- doubling is the addition law applied to (P, P) -/
theorem two_nsmul' (P : EdPoint c) : 2 • P = P + P := two_nsmul P

end EdPoint
end Voi.Proofs

#print axioms Voi.Proofs.EdPoint.denoms_ne_zero
#print axioms Voi.Proofs.EdPoint.closure
#print axioms Voi.Proofs.EdPoint.add_assoc'
#print axioms Voi.Proofs.EdPoint.instAddCommGroup
