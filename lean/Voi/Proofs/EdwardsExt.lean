/-
C03 foundation: extended twisted Edwards coordinates (X : Y : Z : T) over an arbitrary field `K`
(with the completeness side conditions of `EdCurve`): the formulas add-2008-hwcd-3 and dbl-2008-hwcd
(a = -1), written operation by operation exactly as in `Voi.Spec.Ext.add` / `Ext.dbl`, map
representatives of P, Q to a representative of P + Q / P + P — for ALL points (identity, small
order, P = ±Q): in particular the output Z is never 0.

`ExtK.Rep c E P` : E = (X:Y:Z:T) represents the affine point P, i.e. Z ≠ 0, X = x·Z, Y = y·Z,
T·Z = X·Y.

Mathlib is used here; this module must not be imported by Voi/Drv/* or Main.lean.
-/
import Voi.Proofs.EdwardsCurve
namespace Voi.Proofs

/-- extended coordinates over a field -/
structure ExtK (K : Type*) where
  X : K
  Y : K
  Z : K
  T : K

namespace ExtK
variable {K : Type*} [Field K]

def zero : ExtK K := ⟨0, 1, 1, 0⟩
def ofAffine (x y : K) : ExtK K := ⟨x, y, 1, x * y⟩

/-- add-2008-hwcd-3 (a = -1), same operation sequence as `Voi.Spec.Ext.add`; `d2 = d + d` -/
def add (d2 : K) (P Q : ExtK K) : ExtK K :=
  let A := (P.Y - P.X) * (Q.Y - Q.X)
  let B := (P.Y + P.X) * (Q.Y + Q.X)
  let C := (P.T * d2) * Q.T
  let D := (P.Z + P.Z) * Q.Z
  let E := B - A; let F := D - C; let G := D + C; let H := B + A
  ⟨E * F, G * H, F * G, E * H⟩

/-- dbl-2008-hwcd (a = -1), same operation sequence as `Voi.Spec.Ext.dbl` -/
def dbl (P : ExtK K) : ExtK K :=
  let A := P.X * P.X; let B := P.Y * P.Y; let C := P.Z * P.Z + P.Z * P.Z
  let D := -A
  let E := ((P.X + P.Y) * (P.X + P.Y) - A) - B
  let G := D + B; let F := G - C; let H := D - B
  ⟨E * F, G * H, F * G, E * H⟩

def neg (P : ExtK K) : ExtK K := ⟨-P.X, P.Y, P.Z, -P.T⟩

/-- `E` represents the affine curve point `P` -/
structure Rep (c : EdCurve K) (E : ExtK K) (P : EdPoint c) : Prop where
  z_ne : E.Z ≠ 0
  hx : E.X = P.x * E.Z
  hy : E.Y = P.y * E.Z
  ht : E.T * E.Z = E.X * E.Y

namespace Rep
variable {c : EdCurve K}

theorem t_eq {E : ExtK K} {P : EdPoint c} (h : Rep c E P) : E.T = P.x * P.y * E.Z := by
  apply mul_right_cancel₀ h.z_ne
  rw [h.ht, h.hx, h.hy]; ring

theorem zero : Rep c (ExtK.zero : ExtK K) 0 :=
  ⟨one_ne_zero, by simp [ExtK.zero], by simp [ExtK.zero], by simp [ExtK.zero]⟩

theorem ofAffine (P : EdPoint c) : Rep c (ExtK.ofAffine P.x P.y) P :=
  ⟨one_ne_zero, by simp [ExtK.ofAffine], by simp [ExtK.ofAffine], by simp [ExtK.ofAffine]⟩

/-- affine coordinates are recovered by dividing by Z -/
theorem toAffine {E : ExtK K} {P : EdPoint c} (h : Rep c E P) :
    E.X * E.Z⁻¹ = P.x ∧ E.Y * E.Z⁻¹ = P.y := by
  constructor
  · rw [h.hx, mul_assoc, mul_inv_cancel₀ h.z_ne, mul_one]
  · rw [h.hy, mul_assoc, mul_inv_cancel₀ h.z_ne, mul_one]

/-- a representative determines its point -/
theorem unique {E : ExtK K} {P Q : EdPoint c} (h : Rep c E P) (h' : Rep c E Q) : P = Q := by
  ext
  · rw [← h.toAffine.1, ← h'.toAffine.1]
  · rw [← h.toAffine.2, ← h'.toAffine.2]

/-- projective equality test (`Voi.Spec.Ext.eq`, the library's `Equal`) decides equality of points -/
theorem eq_iff {E E' : ExtK K} {P Q : EdPoint c} (h : Rep c E P) (h' : Rep c E' Q) :
    (E.X * E'.Z = E'.X * E.Z ∧ E.Y * E'.Z = E'.Y * E.Z) ↔ P = Q := by
  have hz := mul_ne_zero h.z_ne h'.z_ne
  constructor
  · rintro ⟨hX, hY⟩
    ext
    · apply mul_right_cancel₀ hz
      rw [h.hx, h'.hx] at hX; linear_combination hX
    · apply mul_right_cancel₀ hz
      rw [h.hy, h'.hy] at hY; linear_combination hY
  · rintro rfl
    rw [h.hx, h'.hx, h.hy, h'.hy]; constructor <;> ring

/-- identity test (`Voi.Spec.Ext.isZero`) -/
theorem isZero_iff {E : ExtK K} {P : EdPoint c} (h : Rep c E P) :
    (E.X = 0 ∧ E.Y = E.Z) ↔ P = 0 := by
  constructor
  · rintro ⟨hX, hY⟩
    ext
    · rw [h.hx] at hX
      exact (mul_eq_zero.mp hX).resolve_right h.z_ne
    · rw [h.hy] at hY
      have : (P.y - 1) * E.Z = 0 := by linear_combination hY
      have := (mul_eq_zero.mp this).resolve_right h.z_ne
      simpa [sub_eq_zero] using this
  · rintro rfl
    rw [h.hx, h.hy]; simp

/-- negation -/
theorem neg {E : ExtK K} {P : EdPoint c} (h : Rep c E P) : Rep c (ExtK.neg E) (-P) := by
  refine ⟨h.z_ne, ?_, ?_, ?_⟩
  · simp only [ExtK.neg, EdPoint.neg_x]; rw [h.hx]; ring
  · simp only [ExtK.neg, EdPoint.neg_y]; exact h.hy
  · simp only [ExtK.neg]; linear_combination -h.ht

/-- add-2008-hwcd-3 is correct and COMPLETE: representatives of any P, Q (also P = ±Q, identity,
small order) are mapped to a representative of P + Q; in particular Z₃ ≠ 0. -/
theorem add {E E' : ExtK K} {P Q : EdPoint c} (h : Rep c E P) (h' : Rep c E' Q) :
    Rep c (ExtK.add (c.d + c.d) E E') (P + Q) := by
  have ha := EdPoint.denom_add_ne_zero P Q
  have hb := EdPoint.denom_sub_ne_zero P Q
  have hT := h.t_eq
  have hT' := h'.t_eq
  obtain ⟨X1, Y1, Z1, T1⟩ := E
  obtain ⟨X2, Y2, Z2, T2⟩ := E'
  have hz1 : Z1 ≠ 0 := h.z_ne
  have hz2 : Z2 ≠ 0 := h'.z_ne
  have hx1 : X1 = P.x * Z1 := h.hx
  have hy1 : Y1 = P.y * Z1 := h.hy
  have hx2 : X2 = Q.x * Z2 := h'.hx
  have hy2 : Y2 = Q.y * Z2 := h'.hy
  simp only at hT hT'
  subst hx1 hy1 hx2 hy2 hT hT'
  have h4 : (4 : K) ≠ 0 := by
    have : (4 : K) = 2 * 2 := by norm_num
    rw [this]; exact mul_ne_zero c.two_ne c.two_ne
  have hZ3 : (ExtK.add (c.d + c.d) ⟨P.x * Z1, P.y * Z1, Z1, P.x * P.y * Z1⟩
      ⟨Q.x * Z2, Q.y * Z2, Z2, Q.x * Q.y * Z2⟩).Z
      = 4 * (Z1 * Z1) * (Z2 * Z2) * ((1 + c.d * P.x * Q.x * P.y * Q.y) * (1 - c.d * P.x * Q.x * P.y * Q.y)) := by
    simp only [ExtK.add]; ring
  refine ⟨?_, ?_, ?_, ?_⟩
  · rw [hZ3]
    exact mul_ne_zero (mul_ne_zero (mul_ne_zero h4 (mul_ne_zero hz1 hz1)) (mul_ne_zero hz2 hz2))
      (mul_ne_zero ha hb)
  · rw [hZ3, EdPoint.add_x, div_mul_eq_mul_div, eq_div_iff ha]
    simp only [ExtK.add]; ring
  · rw [hZ3, EdPoint.add_y, div_mul_eq_mul_div, eq_div_iff hb]
    simp only [ExtK.add]; ring
  · simp only [ExtK.add]; ring

/-- dbl-2008-hwcd is correct and complete: a representative of any P is mapped to a
representative of P + P with Z₃ ≠ 0. -/
theorem dbl {E : ExtK K} {P : EdPoint c} (h : Rep c E P) : Rep c (ExtK.dbl E) (P + P) := by
  have ha := EdPoint.denom_add_ne_zero P P
  have hb := EdPoint.denom_sub_ne_zero P P
  obtain ⟨X1, Y1, Z1, T1⟩ := E
  have hz1 : Z1 ≠ 0 := h.z_ne
  have hx1 : X1 = P.x * Z1 := h.hx
  have hy1 : Y1 = P.y * Z1 := h.hy
  subst hx1 hy1
  have hon := P.on
  have hZ3 : (ExtK.dbl ⟨P.x * Z1, P.y * Z1, Z1, T1⟩).Z
      = -((Z1 * Z1) * (Z1 * Z1)) * ((1 + c.d * P.x * P.x * P.y * P.y) * (1 - c.d * P.x * P.x * P.y * P.y)) := by
    simp only [ExtK.dbl]
    linear_combination (Z1 ^ 4 * (c.d * P.x ^ 2 * P.y ^ 2 + P.y ^ 2 - P.x ^ 2 - 1)) * hon
  refine ⟨?_, ?_, ?_, ?_⟩
  · rw [hZ3]
    exact mul_ne_zero (neg_ne_zero.mpr (mul_ne_zero (mul_ne_zero hz1 hz1) (mul_ne_zero hz1 hz1)))
      (mul_ne_zero ha hb)
  · rw [hZ3, EdPoint.add_x, div_mul_eq_mul_div, eq_div_iff ha]
    simp only [ExtK.dbl]
    linear_combination (2 * P.x * P.y * Z1 ^ 4 * (1 + c.d * P.x * P.x * P.y * P.y)) * hon
  · rw [hZ3, EdPoint.add_y, div_mul_eq_mul_div, eq_div_iff hb]
    simp only [ExtK.dbl]
    linear_combination (-(P.x ^ 2 + P.y ^ 2) * Z1 ^ 4 * (1 - c.d * P.x * P.x * P.y * P.y)) * hon
  · simp only [ExtK.dbl]; ring

end Rep
end ExtK
end Voi.Proofs

#print axioms Voi.Proofs.ExtK.Rep.add
#print axioms Voi.Proofs.ExtK.Rep.dbl
#print axioms Voi.Proofs.ExtK.Rep.eq_iff
