/- voidrv: the Lean side of the line protocol. Reads request lines on stdin, writes one reply per line. -/
import Voi.Drv.All
open Voi Voi.Drv

partial def loop (h : IO.FS.Stream) (out : IO.FS.Stream) (st : DrvState) : IO Unit := do
  let line ← h.getLine
  if line.isEmpty then return ()
  let ws := splitWords (line.trimAscii.toString)
  let (st', reply) := dispatch st ws
  out.putStrLn reply
  loop h out st'

def main : IO Unit := do
  let out ← IO.getStdout
  loop (← IO.getStdin) out {}
  out.flush
