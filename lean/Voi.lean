-- This module serves as the root of the `Voi` library.
-- Import modules here that should be built as part of the library.
import Voi.Basic
