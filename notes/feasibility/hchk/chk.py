import hashlib, random, subprocess, sys
sys.path.insert(0,'/tmp/scratch/edchk')
from ref import *
random.seed(5)
HS={'sha256':(hashlib.sha256,32,64),'sha512':(hashlib.sha512,64,128),'sha384':(hashlib.sha384,48,128),'sha224':(hashlib.sha224,28,64)}
def xmd(hn,dst,msg,n):
    Hf,b,r=HS[hn]
    if b<32: return None
    if n==0 or n>65535: return None
    if len(dst)>255: dst=Hf(b"H2C-OVERSIZE-DST-"+dst).digest()
    ell=-(-n//b)
    if ell>255: return None
    dp=dst+bytes([len(dst)])
    b0=Hf(bytes(r)+msg+n.to_bytes(2,'big')+b'\0'+dp).digest()
    bi=Hf(b0+b'\1'+dp).digest(); out=bi
    for i in range(2,ell+1):
        bi=Hf(bytes(x^y for x,y in zip(b0,bi))+bytes([i])+dp).digest(); out+=bi
    return out[:n]
def xof(xn,dst,msg,n):
    X=hashlib.shake_128 if xn=='shake128' else hashlib.shake_256
    if n==0 or n>65535: return None
    if len(dst)>255: dst=X(b"H2C-OVERSIZE-DST-"+dst).digest(32)   # ceil(2k/8)=32
    return X(msg+n.to_bytes(2,'big')+dst+bytes([len(dst)])).digest(n)
# RFC 9380 elligator2 curve25519 (6.7.1) + rational map (6.8.2)
J=486662
def sgn0(x): return x&1
def is_sq(x): return x%p==0 or pow(x,(p-1)//2,p)==1
def sqrt(x):
    r=pow(x,(p+3)//8,p)
    if (r*r-x)%p: r=r*I%p
    assert (r*r-x)%p==0
    return r
def inv0(x): return pow(x,p-2,p)
def map_mont(u):
    Z=2
    x1=(-J*inv0(1+Z*u*u))%p
    if x1==0: x1=(-J)%p
    gx1=(x1**3+J*x1*x1+x1)%p
    x2=(-x1-J)%p; gx2=(x2**3+J*x2*x2+x2)%p
    if is_sq(gx1): x=x1; y=sqrt(gx1); 
    else: x=x2; y=sqrt(gx2)
    if is_sq(gx1):
        if sgn0(y)!=1: y=(-y)%p
    else:
        if sgn0(y)!=0: y=(-y)%p
    return x,y
SQRT_NEG_486664=None
def map_ed(u):
    global SQRT_NEG_486664
    if SQRT_NEG_486664 is None:
        c=sqrt((-486664)%p)
        if sgn0(c)!=0: c=(-c)%p
        SQRT_NEG_486664=c
    s,t=map_mont(u)
    tv1=(s+1)%p; tv2=tv1*t%p
    if tv2==0: return (0,1)
    tv2i=inv0(tv2)
    v=tv2i*tv1%p*s%p*SQRT_NEG_486664%p; w=tv2i*t%p*((s-1)%p)%p
    return (v,w)
def h2f(dst,msg,count):
    ub=xmd('sha512',dst,msg,48*count)
    return [int.from_bytes(ub[48*i:48*i+48],'big')%p for i in range(count)]
def ro(dst,msg):
    u0,u1=h2f(dst,msg,2); return encode(mul(8,add(map_ed(u0),map_ed(u1))))
def nu(dst,msg):
    (u0,)=h2f(dst,msg,1); return encode(mul(8,map_ed(u0)))
h=lambda b:b.hex() if b else '-'
lines=[];exp=[]
for hn in HS:
    for dl in (0,1,16,254,255,256,300,1000):
        for n in (0,1,31,32,33,63,64,65,127,128,129,255*HS[hn][1],255*HS[hn][1]+1,65535,65536,random.randint(1,3000)):
            dst=random.randbytes(dl); msg=random.randbytes(random.choice([0,1,55,64,111,112,119,128,300]))
            lines.append(f"xmd {hn} {h(dst)} {h(msg)} {n}"); r=xmd(hn,dst,msg,n); exp.append('err' if r is None else r.hex())
for xn in ('shake128','shake256'):
    for dl in (0,1,16,254,255,256,300,1000):
        for n in (0,1,31,32,33,135,136,137,167,168,169,1000,65535,65536):
            dst=random.randbytes(dl); msg=random.randbytes(random.choice([0,1,135,136,137,168,300]))
            lines.append(f"xof {xn} {h(dst)} {h(msg)} {n}"); r=xof(xn,dst,msg,n); exp.append('err' if r is None else r.hex())
for i in range(300):
    dst=random.randbytes(random.choice([0,1,20,43,255,256,400])); msg=random.randbytes(random.randint(0,200))
    lines.append(f"ro x {h(dst)} {h(msg)}"); exp.append(ro(dst,msg).hex()+" true")
    lines.append(f"nu x {h(dst)} {h(msg)}"); exp.append(nu(dst,msg).hex()+" true")
out=subprocess.run(['./hchk'],input="\n".join(lines)+"\n",capture_output=True,text=True).stdout.splitlines()
bad=[(l[:60],a[:40],b[:40]) for l,a,b in zip(lines,out,exp) if a!=b]
print('cases',len(lines),len(out),'bad',len(bad)); print(bad[:8])
