package main

import (
	"bufio"
	"crypto"
	_ "crypto/sha256"
	_ "crypto/sha512"
	"encoding/hex"
	"fmt"
	"os"
	"strconv"
	"strings"

	"golang.org/x/crypto/sha3"

	"github.com/oasisprotocol/curve25519-voi/primitives/h2c"
)

func unhex(s string) []byte {
	if s == "-" {
		return []byte{}
	}
	b, _ := hex.DecodeString(s)
	return b
}

func main() {
	sc := bufio.NewScanner(os.Stdin)
	sc.Buffer(make([]byte, 1<<22), 1<<22)
	w := bufio.NewWriter(os.Stdout)
	defer w.Flush()
	hs := map[string]crypto.Hash{"sha256": crypto.SHA256, "sha512": crypto.SHA512, "sha384": crypto.SHA384, "sha224": crypto.SHA224}
	for sc.Scan() {
		f := strings.Split(sc.Text(), " ")
		dst, msg := unhex(f[2]), unhex(f[3])
		switch f[0] {
		case "xmd":
			n, _ := strconv.Atoi(f[4])
			out := make([]byte, n)
			if err := h2c.ExpandMessageXMD(out, hs[f[1]], dst, msg); err != nil {
				fmt.Fprintln(w, "err")
			} else {
				fmt.Fprintln(w, hex.EncodeToString(out))
			}
		case "xof":
			n, _ := strconv.Atoi(f[4])
			out := make([]byte, n)
			var x sha3.ShakeHash
			if f[1] == "shake128" {
				x = sha3.NewShake128()
			} else {
				x = sha3.NewShake256()
			}
			_, _ = x.Write([]byte("garbage that must be reset"))
			if err := h2c.ExpandMessageXOF(out, x, dst, msg); err != nil {
				fmt.Fprintln(w, "err")
			} else {
				fmt.Fprintln(w, hex.EncodeToString(out))
			}
		case "ro", "nu":
			var b []byte
			if f[0] == "ro" {
				p, err := h2c.Edwards25519_XMD_SHA512_ELL2_RO(dst, msg)
				if err != nil {
					fmt.Fprintln(w, "err")
					continue
				}
				b, _ = p.MarshalBinary()
				fmt.Fprintln(w, hex.EncodeToString(b), p.IsTorsionFree())
			} else {
				p, err := h2c.Edwards25519_XMD_SHA512_ELL2_NU(dst, msg)
				if err != nil {
					fmt.Fprintln(w, "err")
					continue
				}
				b, _ = p.MarshalBinary()
				fmt.Fprintln(w, hex.EncodeToString(b), p.IsTorsionFree())
			}
		}
	}
}
