import sys, time
from sympy import factorint, isprime
cert={}
hints={2**252+27742317777372353535851937790883648493:{2:2,3:1,11:1,198211423230930754013084525763697:1,276602624281642239937218680557139826668747:1}}
def pratt(n):
    if n in cert or n==2: return
    assert isprime(n), n
    t=time.time()
    f=hints.get(n) or factorint(n-1)
    a=2
    while True:
        if pow(a,n-1,n)==1 and all(pow(a,(n-1)//q,n)!=1 for q in f): break
        a+=1
    cert[n]=(a,sorted(f.items()))
    print(n,a,sorted(f.items()),round(time.time()-t,1),flush=True)
    for q in f: pratt(q)
pratt(2**252+27742317777372353535851937790883648493)
