import random, subprocess, sys
sys.path.insert(0,'/tmp/scratch/edchk')
from ref import *
random.seed(9)
# fast extended coords
def ext(P): return (P[0],P[1],1,P[0]*P[1]%p)
def eadd(P,Q):
    X1,Y1,Z1,T1=P; X2,Y2,Z2,T2=Q
    A=(Y1-X1)*(Y2-X2)%p; Bq=(Y1+X1)*(Y2+X2)%p; C=T1*2*d*T2%p; D=Z1*2*Z2%p
    E=Bq-A; F=D-C; G=D+C; H=Bq+A
    return (E*F%p,G*H%p,F*G%p,E*H%p)
def emul(n,P):
    R=(0,1,1,0)
    while n:
        if n&1: R=eadd(R,P)
        P=eadd(P,P); n>>=1
    return R
def aff(P): zi=inv(P[2]); return (P[0]*zi%p,P[1]*zi%p)
def find_t8():
    y=2
    while True:
        P=decode(y.to_bytes(32,'little'))
        if P is not None:
            T=mul(L,P)
            if mul(4,T)!=O: return T
        y+=1
T1=find_t8(); TOR=[mul(i,T1) for i in range(8)]
def rndpt():
    P=mul(random.randrange(1,L),B)
    if random.random()<0.5: P=add(P,random.choice(TOR))
    return P
PTS=TOR+[B]+[rndpt() for _ in range(40)]
SC=[0,1,2,7,8,15,16,L-1,L,L+1,2*L-1,7*L+1,2**252,2**253-1,2**254,2**255-1,2**255-2,int('7'*63,16)&(2**255-1),int('8'*63,16)&(2**255-1),(1<<128)-1,1<<128,(1<<64)-1]
rs=lambda: random.choice(SC) if random.random()<0.4 else random.getrandbits(255)
h=lambda n:n.to_bytes(32,'little').hex()
lines=[];exp=[]
for P in PTS[:20]:
    for Q in PTS[:20]:
        lines.append(f"bin {encode(P).hex()} {encode(Q).hex()}")
        exp.append(' '.join([encode(add(P,Q)).hex(),encode(add(P,neg(Q))).hex(),encode(neg(P)).hex(),encode(add(P,P)).hex(),encode(mul(8,P)).hex(),'1' if P==Q else '0',str(small(P)).lower(),str(mul(L,P)==O).lower()]))
for P in PTS[:25]:
    for s in SC+[random.getrandbits(255) for _ in range(5)]:
        lines.append(f"mul {encode(P).hex()} {h(s)}")
        m=encode(aff(emul(s,ext(P)))).hex(); mb=encode(aff(emul(s,ext(B)))).hex(); ds=encode(aff(eadd(emul(s,ext(P)),emul(s,ext(B))))).hex()
        exp.append(' '.join([m,mb,ds,ds]))
sizes=[0,1,2,3,7,8,9,100,189,190,191,192,379,380,381,499,500,501,799,800,801]
for n in sizes:
    for rep in range(2 if n>200 else 4):
        ps=[random.choice(PTS) for _ in range(n)]; ss=[rs() for _ in range(n)]
        if rep==0 and n: ss=[2**255-1]*n
        acc=(0,1,1,0)
        for P,s in zip(ps,ss): acc=eadd(acc,emul(s,ext(P)))
        r=encode(aff(acc)).hex()
        lines.append("msm "+' '.join(encode(P).hex()+' '+h(s) for P,s in zip(ps,ss)))
        exp.append(' '.join([r if n<=8 else encode(O).hex(),r,r]))
out=subprocess.run(['./gchk'],input="\n".join(lines)+"\n",capture_output=True,text=True)
o=out.stdout.splitlines()
print(out.stderr[:500])
bad=[(l[:50],a,b) for l,a,b in zip(lines,o,exp) if a!=b]
print('cases',len(lines),len(o),'bad',len(bad)); print(bad[:3])
