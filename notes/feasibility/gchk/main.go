package main

import (
	"bufio"
	"encoding/hex"
	"fmt"
	"os"
	"strings"

	"github.com/oasisprotocol/curve25519-voi/curve"
	"github.com/oasisprotocol/curve25519-voi/curve/scalar"
)

func pt(h string) *curve.EdwardsPoint {
	b, _ := hex.DecodeString(h)
	var c curve.CompressedEdwardsY
	copy(c[:], b)
	var p curve.EdwardsPoint
	if _, err := p.SetCompressedY(&c); err != nil {
		panic(err)
	}
	return &p
}
func sc(h string) *scalar.Scalar {
	b, _ := hex.DecodeString(h)
	s, err := scalar.NewFromBits(b)
	if err != nil {
		panic(err)
	}
	return s
}
func hx(p *curve.EdwardsPoint) string { b, _ := p.MarshalBinary(); return hex.EncodeToString(b) }

func main() {
	in := bufio.NewScanner(os.Stdin)
	in.Buffer(make([]byte, 1<<26), 1<<26)
	w := bufio.NewWriter(os.Stdout)
	defer w.Flush()
	for in.Scan() {
		f := strings.Split(in.Text(), " ")
		switch f[0] {
		case "bin": // P Q
			P, Q := pt(f[1]), pt(f[2])
			var a, s, n, d, c8 curve.EdwardsPoint
			a.Add(P, Q)
			s.Sub(P, Q)
			n.Neg(P)
			d.Add(P, P)
			c8.MulByCofactor(P)
			fmt.Fprintln(w, hx(&a), hx(&s), hx(&n), hx(&d), hx(&c8), P.Equal(Q), P.IsSmallOrder(), P.IsTorsionFree())
		case "mul": // P s
			P, s := pt(f[1]), sc(f[2])
			var m, mb, dsm curve.EdwardsPoint
			m.Mul(P, s)
			mb.MulBasepoint(curve.ED25519_BASEPOINT_TABLE, s)
			dsm.DoubleScalarMulBasepointVartime(s, P, s)
			x := curve.NewExpandedEdwardsPoint(P)
			var xd curve.EdwardsPoint
			xd.ExpandedDoubleScalarMulBasepointVartime(s, x, s)
			fmt.Fprintln(w, hx(&m), hx(&mb), hx(&dsm), hx(&xd))
		case "msm": // n then pairs
			var ss []*scalar.Scalar
			var ps []*curve.EdwardsPoint
			for i := 1; i+1 < len(f); i += 2 {
				ps = append(ps, pt(f[i]))
				ss = append(ss, sc(f[i+1]))
			}
			var ct, vt, xv curve.EdwardsPoint
			if len(ps) <= 8 {
				ct.MultiscalarMul(ss, ps)
			} else {
				ct.Identity()
			}
			vt.MultiscalarMulVartime(ss, ps)
			// expanded: first half static
			h := len(ps) / 2
			var xs []*curve.ExpandedEdwardsPoint
			for _, p := range ps[:h] {
				xs = append(xs, curve.NewExpandedEdwardsPoint(p))
			}
			xv.ExpandedMultiscalarMulVartime(ss[:h], xs, ss[h:], ps[h:])
			fmt.Fprintln(w, hx(&ct), hx(&vt), hx(&xv))
		}
	}
}
