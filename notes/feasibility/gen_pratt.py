import re,sys,ast
cert={}
for fn in ('/verif/notes/pratt_p25519.txt','/verif/notes/pratt_L.txt'):
    for line in open(fn):
        m=re.match(r"(\d+) (\d+) (\[.*\]) ",line)
        if m: cert[int(m.group(1))]=(int(m.group(2)),ast.literal_eval(m.group(3)))
order=sorted(cert)  # small first
out=["import Mathlib.NumberTheory.LucasPrimality","import Mathlib.Tactic.ReduceModChar","import Mathlib.Tactic.NormNum.Prime","import Mathlib.Algebra.BigOperators.Group.List.Basic","namespace Pratt",
"""theorem mem_of_prime_dvd_prod {q : ℕ} (hq : q.Prime) (l : List ℕ) (hl : ∀ r ∈ l, r.Prime) (h : q ∣ l.prod) : q ∈ l := by
  obtain ⟨a, ha, hqa⟩ := (Prime.dvd_prod_iff (Nat.prime_iff.mp hq)).mp h
  have := (Nat.prime_dvd_prime_iff_eq hq (hl a ha)).mp hqa
  exact this ▸ ha
"""]
def pname(n): return f"prime_{n}"
for n in order:
    a,fac=cert[n]
    if n<10**6:
        out.append(f"theorem {pname(n)} : Nat.Prime {n} := by norm_num"); continue
    qs=[q for q,e in fac]
    flat=[q for q,e in fac for _ in range(e)]
    prf=[]
    prf.append(f"theorem {pname(n)} : Nat.Prime {n} := by")
    prf.append(f"  refine lucas_primality {n} ({a} : ZMod {n}) (by reduce_mod_char) ?_")
    prf.append(f"  intro q hq hdvd")
    prf.append(f"  have hfac : {n} - 1 = ({flat} : List ℕ).prod := by norm_num")
    prf.append(f"  rw [hfac] at hdvd")
    prf.append(f"  have hmem := mem_of_prime_dvd_prod hq _ (by")
    prf.append(f"    intro r hr; simp only [List.mem_cons, List.mem_nil_iff, or_false] at hr")
    prf.append(f"    rcases hr with "+" | ".join(["rfl"]*len(flat))+"")
    prf.append(f"    all_goals first | exact Nat.prime_two | exact Nat.prime_three | "+" | ".join(f"exact {pname(q)}" for q in qs if q>3)+") hdvd")
    prf.append(f"  simp only [List.mem_cons, List.mem_nil_iff, or_false] at hmem")
    prf.append(f"  rcases hmem with "+" | ".join(["rfl"]*len(flat)))
    prf.append(f"  all_goals (norm_num only; reduce_mod_char; decide)")
    out.append("\n".join(prf))
out.append("end Pratt")
open('Feas/PrattAll.lean','w').write("\n".join(out)+"\n")
print(len(order),'primes')
