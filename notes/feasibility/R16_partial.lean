namespace R16

/-- value of a little-endian digit list in radix 16 -/
def val : List Int → Int
  | [] => 0
  | d :: ds => d + 16 * val ds

/-- functional rendering of the recentring loop of Scalar.ToRadix16:
    every digit except the last is recentred; the carry is added to the next one -/
def recenter : Int → List Int → List Int
  | _, [] => []
  | c, [d] => [d + c]
  | c, d :: d' :: ds =>
    let x := d + c
    let carry := (x + 8) / 16
    (x - carry * 16) :: recenter carry (d' :: ds)

theorem recenter_val : ∀ (ds : List Int) (c : Int), ds ≠ [] → val (recenter c ds) = c + val ds
  | [], _, h => absurd rfl h
  | [d], c, _ => by simp [recenter, val]; omega
  | d :: d' :: ds, c, _ => by
    simp only [recenter, val]
    rw [recenter_val (d' :: ds) _ (by simp)]
    simp only [val]
    omega

def inRange (ds : List Int) : Prop := ∀ d ∈ ds, 0 ≤ d ∧ d < 16

theorem recenter_length : ∀ (ds : List Int) (c : Int), (recenter c ds).length = ds.length
  | [], _ => rfl
  | [_], _ => rfl
  | d :: d' :: ds, c => by simp [recenter, recenter_length (d' :: ds)]

/-- all digits but the last land in [-8, 8); the last is its nibble plus a carry in {0,1} -/
theorem recenter_bounds : ∀ (ds : List Int) (c : Int), inRange ds → (c = 0 ∨ c = 1) →
    (∀ i, i + 1 < ds.length → -8 ≤ (recenter c ds)[i]! ∧ (recenter c ds)[i]! < 8) ∧
    (∀ h : ds ≠ [], ∃ c' : Int, (c' = 0 ∨ c' = 1) ∧ (recenter c ds).getLast! = ds.getLast h + c')
  | [], _, _, _ => by simp
  | [d], c, _, hc => by
    refine ⟨by simp, fun _ => ⟨c, hc, by simp [recenter]⟩⟩
  | d :: d' :: ds, c, hr, hc => by
    have hd := hr d (by simp)
    have hr' : inRange (d' :: ds) := fun x hx => hr x (by simp at hx ⊢; right; exact hx)
    have hcarry : ((d + c + 8) / 16 = 0 ∨ (d + c + 8) / 16 = 1) := by omega
    obtain ⟨ih1, ih2⟩ := recenter_bounds (d' :: ds) ((d + c + 8) / 16) hr' hcarry
    constructor
    · intro i hi
      cases i with
      | zero => simp [recenter]; omega
      | succ j =>
        simp only [recenter, List.length_cons] at hi ⊢
        have := ih1 j (by simp; omega)
        simpa using this
    · intro _
      obtain ⟨c', hc', hl⟩ := ih2 (by simp)
      refine ⟨c', hc', ?_⟩
      simp only [recenter]
      have hne : recenter ((d + c + 8) / 16) (d' :: ds) ≠ [] := by
        intro h; have := congrArg List.length h; simp [recenter_length] at this
      rw [List.getLast!_cons_of_ne_nil hne] at *
      simpa using hl
end R16
