import Mathlib.NumberTheory.LucasPrimality
import Mathlib.Tactic.ReduceModChar
import Mathlib.Tactic.NormNum.Prime

example : (2 : ZMod 65147)^(65146) = 1 := by reduce_mod_char

set_option maxRecDepth 100000 in
example : (2 : ZMod (2^255-19))^(2^255-20) = 1 := by
  norm_num only
  reduce_mod_char
