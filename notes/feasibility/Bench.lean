import Feas.K
open K in
def bench (n : Nat) : Nat := Id.run do
  let mut acc : Pt := B
  let mut s : Nat := 0
  for i in [0:n] do
    let k := (L - 1 - i * 7919) % L
    acc := smul 256 k B
    s := (s + acc.x) % p
  return s

def main (args : List String) : IO Unit := do
  let n := args.head!.toNat!
  let t0 ← IO.monoMsNow
  let r := bench n
  IO.println s!"{r % 1000}"
  let t1 ← IO.monoMsNow
  IO.println s!"{n} scalar mults in {t1 - t0} ms"
