# produce Lean-friendly certificates: closure + associativity for a=-1 twisted Edwards, with denominators kept symbolic
from sympy import symbols, expand, Poly, reduced, together, fraction, factor
x1,y1,x2,y2,x3,y3,d=symbols('x1 y1 x2 y2 x3 y3 d')
E=lambda x,y: -x**2+y**2-1-d*x**2*y**2
# closure: (x3,y3)=P1+P2 on curve.  x3 = (x1y2+y1x2)/(1+t), y3=(y1y2+x1x2)/(1-t), t=d x1x2y1y2
t=d*x1*x2*y1*y2
nx=x1*y2+y1*x2; dx=1+t; ny=y1*y2+x1*x2; dy=1-t
# -x3^2+y3^2 -1 - d x3^2 y3^2 = 0  times dx^2 dy^2:
N=expand(-nx**2*dy**2 + ny**2*dx**2 - dx**2*dy**2 - d*nx**2*ny**2)
Q,r=reduced(N,[E(x1,y1),E(x2,y2)],x1,y1,x2,y2,d,order='grevlex')
print('closure rem',r); print('q1 =',Q[0]); print('q2 =',Q[1])
