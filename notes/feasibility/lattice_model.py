import random, sys
L=2**252+27742317777372353535851937790883648493
def bitlen2c(x):  # BitLen of two's complement excluding sign
    return x.bit_length() if x>=0 else (-x-1).bit_length()
def fsv(k):
    Nu=L*L; Nv=k*k+1; p=L*k
    u=(L,0); v=(k,1); T=254; it=0
    while True:
        it+=1
        if Nu<Nv: u,v=v,u; Nu,Nv=Nv,Nu
        lv=bitlen2c(Nv)
        if lv<=T: return v,it
        s=max(0,bitlen2c(p)-lv)
        if p>=0:
            u=(u[0]-(v[0]<<s),u[1]-(v[1]<<s)); Nu=Nu+(Nv<<(2*s))-(p<<(s+1)); p=p-(Nv<<s)
        else:
            u=(u[0]+(v[0]<<s),u[1]+(v[1]<<s)); Nu=Nu+(Nv<<(2*s))+(p<<(s+1)); p=p+(Nv<<s)
        assert Nu==u[0]**2+u[1]**2 and Nv==v[0]**2+v[1]**2 and p==u[0]*v[0]+u[1]*v[1]
        assert Nu<2**511 and abs(p)<2**511
        assert it<2000
random.seed(1)
ks=[0,1,2,3,L-1,L,L+1,2**255-1,2**255-2,L//2,L//2+1,2**126,2**127,2**128,2**252,2**253,2**254, int(L**0.5) if False else 0]
import math
r=math.isqrt(L); ks+= [r-1,r,r+1,2*L-1 if 2*L-1<2**255 else 1, 3*L+5, 7*L, 15*L+1]
# fibonacci-like / continued fraction extremes
a,b=1,1
while b<2**255: ks.append(b); ks.append((L*a//b)%2**255 if b else 0); a,b=b,a+b
for j in range(0,255,7): ks+= [2**j, 2**j-1, 2**j+1, (L>>j), (L>>j)+1, L-(2**j)]
ks+=[random.getrandbits(255) for _ in range(3000)]
ks+=[random.getrandbits(random.randint(1,255)) for _ in range(1000)]
ks=[k%2**255 for k in ks]
open('in.txt','w').write("\n".join(k.to_bytes(32,'little').hex() for k in ks)+"\n")
exp=[]; maxit=0
for k in ks:
    (d0,d1),it=fsv(k); maxit=max(maxit,it)
    assert (d0-d1*k)%L==0 and (d0,d1)!=(0,0) and abs(d0)<2**127 and abs(d1)<2**127 and d1%L!=0,(k,d0,d1)
    exp.append(f"{d0} {d1}")
open('exp.txt','w').write("\n".join(exp)+"\n")
print(len(ks),'cases; max iterations',maxit)
