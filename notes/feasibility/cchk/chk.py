import re, sys
sys.path.insert(0,'/tmp/scratch/edchk')
from ref import *
def elems(path, fn, nl, offs):
    src=open(path).read()
    out=[]
    for m in re.finditer(fn+r"\(([^()]*)\)", src, re.S):
        txt=re.sub(r"//[^\n]*","",m.group(1))
        nums=[int(x,0) for x in re.findall(r"0x[0-9a-fA-F]+|\d+", txt)]
        if len(nums)==nl: out.append((m.start(), sum(v<<o for v,o in zip(nums,offs))%p))
    return src,out
O64=[0,51,102,153,204]; O32=[0,26,51,77,102,128,153,179,204,230]
def named(path,fn,nl,offs):
    src,es=elems(path,fn,nl,offs)
    # map: find nearest preceding 'name =' or 'var name ='
    res={}
    names=[(m.start(),m.group(1)) for m in re.finditer(r"(?:var\s+)?(\w+)\s*=\s*(?:field\.)?(?:NewElement|newEdwardsPoint|\[8\]\*EdwardsPoint)", src)]
    for pos,v in es:
        nm=[n for (q,n) in names if q<pos][-1]
        res.setdefault(nm,[]).append(v)
    return res
c64=named('/repo/curve/constants_u64.go','NewElement51',5,O64); c32=named('/repo/curve/constants_u32.go','NewElement2625',10,O32)
print('names',sorted(c64))
assert c64==c32, [k for k in c64 if c64.get(k)!=c32.get(k)]
A=-1%p
chk=lambda n,c: print(('ok   ' if c else 'FAIL ')+n)
bx,by,bz,bt=c64['ED25519_BASEPOINT_POINT']
chk('B = decode(4/5), Z=1, T=xy', (bx,by)==B and bz==1 and bt==bx*by%p)
chk('EDWARDS_D', c64['constEDWARDS_D'][0]==d and (d*121666+121665)%p==0)
chk('EDWARDS_D2', c64['constEDWARDS_D2'][0]==2*d%p)
chk('MINUS_ONE', c64['constMINUS_ONE'][0]==p-1)
chk('ONE_MINUS_D_SQ', c64['constONE_MINUS_EDWARDS_D_SQUARED'][0]==(1-d*d)%p)
chk('D_MINUS_ONE_SQ', c64['constEDWARDS_D_MINUS_ONE_SQUARED'][0]==(d-1)**2%p)
sadm1=c64['constSQRT_AD_MINUS_ONE'][0]; chk('SQRT_AD_MINUS_ONE^2 = a*d-1', sadm1*sadm1%p==(A*d-1)%p)
iamd=c64['constINVSQRT_A_MINUS_D'][0]; chk('INVSQRT_A_MINUS_D^2*(a-d)=1', iamd*iamd*(A-d)%p==1)
chk('RFC9496 values', sadm1==25063068953384623474111414158702152701244531502492656460079210482610430750235 and iamd==54469307008909316920995813868745141605393597292927456921205312896311721017578)
T=c64['eightTorsionInnerDocHidden']; pts=[(T[4*i],T[4*i+1]) for i in range(8)]
chk('torsion Z=1,T=xy', all(T[4*i+2]==1 and T[4*i+3]==T[4*i]*T[4*i+1]%p for i in range(8)))
chk('torsion T_i = [i]T_1, order 8', all(mul(i,pts[1])==pts[i] for i in range(8)) and mul(8,pts[1])==O and mul(4,pts[1])!=O)
bs=c64['constB_SHL_128']; chk('B_SHL_128', (bs[0],bs[1])==mul(2**128,B) and bs[2]==1 and bs[3]==bs[0]*bs[1]%p)
f64=named('/repo/internal/field/constants_u64.go','NewElement51',5,O64); f32=named('/repo/internal/field/constants_u32.go','NewElement2625',10,O32)
chk('SQRT_M1 (both encodings) = 2^((p-1)/4)', f64['SQRT_M1'][0]==I==f32['SQRT_M1'][0])
e64=named('/repo/internal/elligator/constants_u64.go','NewElement51',5,O64); e32=named('/repo/internal/elligator/constants_u32.go','NewElement2625',10,O32)
chk('elligator encodings agree', e64==e32)
Aa=486662
chk('A, -A, A^2', e64['constMONTGOMERY_A'][0]==Aa and e64['constMONTGOMERY_NEG_A'][0]==p-Aa and e64['constMONTGOMERY_A_SQUARED'][0]==Aa*Aa)
chk('sqrt(-(A+2))', e64['constMONTGOMERY_SQRT_NEG_A_PLUS_TWO'][0]**2%p==(-(Aa+2))%p)
chk('U_FACTOR = -2 sqrt(-1)', e64['constMONTGOMERY_U_FACTOR'][0]==(-2*I)%p)
chk('V_FACTOR^2 = U_FACTOR', e64['constMONTGOMERY_V_FACTOR'][0]**2%p==e64['constMONTGOMERY_U_FACTOR'][0])
# tables
src=open('/repo/curve/constants_tables.go').read()
def table(name):
    body=src[src.index('var '+name):]; body=body[:body.index('\n}\n')]
    rows=re.findall(r"\{((?:0x[0-9a-f]{2},?\s*){96})\}", body)
    out=[]
    for r in rows:
        b=bytes(int(x,16) for x in re.findall(r"0x([0-9a-f]{2})",r))
        out.append(tuple(int.from_bytes(b[32*i:32*i+32],'little')%p for i in range(3)))
    return out
def niels(P): x,y=P; return ((y+x)%p,(y-x)%p,2*d*x*y%p)
tb=table('packedEdwardsBasepointTable'); ok=len(tb)==256
P=B
for i in range(32):
    Q=P
    for j in range(8):
        ok=ok and tb[8*i+j]==niels(Q); Q=add(Q,P)
    P=mul(256,P)
chk('fixed-base table 32x8 = [(j+1)256^i]B', ok)
for nm,base in (('packedAffineOddMultiplesOfBasepoint',B),('packedAffineOddMultiplesOfBShl128',mul(2**128,B))):
    t=table(nm); ok=len(t)==64; Q=base; two=add(base,base)
    for j in range(64): ok=ok and t[j]==niels(Q); Q=add(Q,two)
    chk(nm+' = [2j+1]P', ok)
# scalar constants
def limbs(path,name,bits):
    s=open(path).read(); s=s[s.index(name):]; s=s[:s.index('}')]
    v=[int(x,16) for x in re.findall(r"0x[0-9a-f]+",s)]
    return sum(x<<(bits*i) for i,x in enumerate(v))
for path,bits,R in (('/repo/curve/scalar/constants_u64.go',52,2**260),('/repo/curve/scalar/constants_u32.go',29,2**261)):
    chk(path[-16:]+' L,R,RR,LFACTOR', limbs(path,'constL ',bits)==L and limbs(path,'constR ',bits)==R%L and limbs(path,'constRR',bits)==R*R%L and (int(re.search(r"constLFACTOR \w+ = (0x[0-9a-f]+)",open(path).read()).group(1),16)*L+1)%(2**bits)==0)
ls=open('/repo/internal/lattice/big_int.go').read(); es=ls[ls.index('func ellSquared'):]; es=[int(x,16) for x in re.findall(r"0x[0-9a-f]{16}",es)][:8]
chk('ellSquared = L^2', sum(x<<(64*i) for i,x in enumerate(es))==L*L)
lr=open('/repo/internal/lattice/lattice_reduction.go').read(); m=re.search(r"newInt128\((0x[0-9a-f]+), (0x[0-9a-f]+)\)",lr)
chk('ELL_LOWER_HALF = L mod 2^128', (int(m.group(1),16)<<64|int(m.group(2),16))==L%2**128)
print('B_SHL_128 Z=',bs[2]==1,'T ok',bs[3]*bs[2]%p==bs[0]*bs[1]%p)
zi=inv(bs[2]); print('affine equals [2^128]B:', (bs[0]*zi%p,bs[1]*zi%p)==mul(2**128,B), 'on curve', (-(bs[0]*zi)**2+(bs[1]*zi)**2-1-d*(bs[0]*zi)**2*(bs[1]*zi)**2)%p==0)
print('table rows',len(tb))
# which entries fail
P=B; bad=[]
for i in range(32):
    Q=P
    for j in range(8):
        if 8*i+j<len(tb) and tb[8*i+j]!=niels(Q): bad.append((i,j))
        Q=add(Q,P)
    P=mul(256,P)
print('bad entries',bad[:10],len(bad))
