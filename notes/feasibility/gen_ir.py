ops=[]; 
def emit(s): ops.append(s); return 10+len(ops)-1
a=[0,1,2,3,4]; b=[5,6,7,8,9]
def const(n): return emit(f".const {n}")
def add(x,y): return emit(f".add {x} {y}")
def mul(x,y): return emit(f".mul {x} {y}")
def shr(x,k): return emit(f".shr {x} {k}")
def low(x,k): return emit(f".low {x} {k}")
c19=const(19); c0=const(0)
def u64mul(x,y): return low(mul(x,y),64)
b19=[None]+[u64mul(b[i],c19) for i in range(1,5)]
def mul64(x,y):
    w=mul(x,y); return shr(w,64), low(w,64)
def add64(x,y,c):
    w=add(add(x,y),c); return low(w,64), shr(w,64)
terms=[
 [(a[0],b[0]),(a[4],b19[1]),(a[3],b19[2]),(a[2],b19[3]),(a[1],b19[4])],
 [(a[1],b[0]),(a[0],b[1]),(a[4],b19[2]),(a[3],b19[3]),(a[2],b19[4])],
 [(a[2],b[0]),(a[1],b[1]),(a[0],b[2]),(a[4],b19[3]),(a[3],b19[4])],
 [(a[3],b[0]),(a[2],b[1]),(a[1],b[2]),(a[0],b[3]),(a[4],b19[4])],
 [(a[4],b[0]),(a[3],b[1]),(a[2],b[2]),(a[1],b[3]),(a[0],b[4])],
]
C=[]
for ts in terms:
    hi,lo=mul64(*ts[0])
    for (x,y) in ts[1:]:
        th,tl=mul64(x,y)
        lo,carry=add64(lo,tl,c0)
        hi,_=add64(hi,th,carry)
    C.append([hi,lo])
c2_13=const(2**13)
fe=[None]*5
for i in range(4):
    hi,lo=C[i]
    tmp=add(low(mul(hi,c2_13),64), shr(lo,51))   # or -> add (timing test only)
    nlo,carry=add64(C[i+1][1],tmp,c0)
    nhi,_=add64(C[i+1][0],c0,carry)
    C[i+1]=[nhi,nlo]
    fe[i]=low(lo,51)
hi,lo=C[4]
carry=add(low(mul(hi,c2_13),64), shr(lo,51))
fe[4]=low(lo,51)
fe0=low(add(fe[0], low(mul(carry,c19),64)),64)
fe1=low(add(fe[1], shr(fe0,51)),64)
fe0b=low(fe0,51)
outs=[fe0b,fe1,fe[2],fe[3],fe[4]]
print("import Feas.IR2\nnamespace IR\ndef feMulProg : List Op := [")
print(",\n".join("  "+o for o in ops))
print("]")
print(f"def feMulOuts : List Nat := {outs}")
print("end IR")
