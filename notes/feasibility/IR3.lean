import Feas.IR2
import Feas.MulIR
namespace IR

def Atom.lt : Atom → Atom → Bool
  | .var a, .var b => a < b
  | .var _, .quot _ _ => true
  | .quot _ _, .var _ => false
  | .quot a k, .quot b l => a < b || (a == b && k < l)

def Mono.ins (a : Atom) : Mono → Mono
  | [] => [a]
  | b :: m => if a.lt b then a :: b :: m else b :: Mono.ins a m
def Mono.norm : Mono → Mono
  | [] => []
  | a :: m => Mono.ins a (Mono.norm m)

def Mono.cmp : Mono → Mono → Ordering
  | [], [] => .eq
  | [], _ => .lt
  | _, [] => .gt
  | a :: m, b :: n => if a.lt b then .lt else if b.lt a then .gt else Mono.cmp m n

def Poly.ins (c : Int) (m : Mono) : Poly → Poly
  | [] => [(c, m)]
  | (c', m') :: p => match Mono.cmp m m' with
    | .lt => (c, m) :: (c', m') :: p
    | .eq => (c + c', m') :: p
    | .gt => (c', m') :: Poly.ins c m p
def Poly.norm : Poly → Poly
  | [] => []
  | (c, m) :: p => Poly.ins c (Mono.norm m) (Poly.norm p)

def Poly.allDiv (M : Int) (p : Poly) : Bool := p.all fun t => t.1 % M == 0

/-- symbolic run, normalising every stored polynomial to keep terms small -/
def srun : List Op → AEnv → SEnv → Option (AEnv × SEnv)
  | [], a, s => some (a, s)
  | op :: ops, a, s => match op.abs a with
    | none => none
    | some i => srun ops (a ++ [i]) (s ++ [(op.sym a s).norm])

def inB : AEnv := List.replicate 10 ⟨0, 2^54 - 1⟩
def inS : SEnv := (List.range 10).map fun i => [(1, [Atom.var i])]

def P : Int := 2^255 - 19
def lin (vs : List Nat) : Poly := (vs.zipIdx).map fun (v, i) => (((2:Int)^(51*i)), [Atom.var v])
def rhs : Poly := (lin [0,1,2,3,4]).mul (lin [5,6,7,8,9])

def finalPoly : Option Poly := match srun feMulProg inB inS with
  | none => none
  | some (_, s) =>
    let outs := feMulOuts.zipIdx.map fun (v, i) => (sget s v).scale ((2:Int)^(51*i))
    let lhs := outs.foldl Poly.add []
    some ((lhs.add (rhs.scale (-1))).norm)

def ok : Bool := match finalPoly with
  | none => false
  | some p => p.allDiv P

end IR
