import random, subprocess, struct, copy
# Keccak-f[1600]
RC=[0x0000000000000001,0x0000000000008082,0x800000000000808A,0x8000000080008000,0x000000000000808B,0x0000000080000001,0x8000000080008081,0x8000000000008009,0x000000000000008A,0x0000000000000088,0x0000000080008009,0x000000008000000A,0x000000008000808B,0x800000000000008B,0x8000000000008089,0x8000000000008003,0x8000000000008002,0x8000000000000080,0x000000000000800A,0x800000008000000A,0x8000000080008081,0x8000000000008080,0x0000000080000001,0x8000000080008008]
ROT=[[0,36,3,41,18],[1,44,10,45,2],[62,6,43,15,61],[28,55,25,21,56],[27,20,39,8,14]]
M=(1<<64)-1
def rol(x,n): n%=64; return ((x<<n)|(x>>(64-n)))&M if n else x
def keccakf(st):
    A=[[int.from_bytes(st[8*(x+5*y):8*(x+5*y)+8],'little') for y in range(5)] for x in range(5)]
    for rnd in range(24):
        C=[A[x][0]^A[x][1]^A[x][2]^A[x][3]^A[x][4] for x in range(5)]
        D=[C[(x-1)%5]^rol(C[(x+1)%5],1) for x in range(5)]
        A=[[A[x][y]^D[x] for y in range(5)] for x in range(5)]
        Bm=[[0]*5 for _ in range(5)]
        for x in range(5):
            for y in range(5): Bm[y][(2*x+3*y)%5]=rol(A[x][y],ROT[x][y])
        A=[[Bm[x][y]^((~Bm[(x+1)%5][y])&Bm[(x+2)%5][y]) for y in range(5)] for x in range(5)]
        A[0][0]^=RC[rnd]
    out=bytearray(200)
    for x in range(5):
        for y in range(5): out[8*(x+5*y):8*(x+5*y)+8]=A[x][y].to_bytes(8,'little')
    return out
# STROBE-128 per spec (python reference structure), subset
I,A_,C,T,M_,K=1,2,4,8,16,32
class Strobe:
    def __init__(s,proto):
        s.R=166; s.st=bytearray(200); s.pos=0; s.posbegin=0; s.initialized=False
        dom=bytes([1,s.R+2,1,0,1,96])+b'STROBEv1.0.2'
        # spec: st = F([1,R+2,1,0,1,12*8] + "STROBEv1.0.2")  with R+2=168
        s.st[:len(dom)]=dom; s.st=keccakf(s.st); s.initialized=True
        s.cur=None
        s.operate(A_|M_,proto,False)
    def runF(s):
        s.st[s.pos]^=s.posbegin; s.st[s.pos+1]^=0x04; s.st[s.R+1]^=0x80
        s.st=keccakf(s.st); s.pos=0; s.posbegin=0
    def duplex(s,data,cbefore,cafter,forceF):
        data=bytearray(data)
        for i in range(len(data)):
            if cbefore: data[i]^=s.st[s.pos]
            s.st[s.pos]^=data[i]
            if cafter: data[i]=s.st[s.pos]
            s.pos+=1
            if s.pos==s.R: s.runF()
        if forceF and s.pos!=0: s.runF()
        return data
    def beginop(s,flags):
        old=s.posbegin; s.posbegin=s.pos+1
        s.duplex(bytes([old,flags]),False,False,flags&(C|K)!=0)
    def operate(s,flags,data,more):
        if more: assert flags==s.cur
        else: s.beginop(flags); s.cur=flags
        cafter=(flags&(C|I|T))==(C|T); cbefore=(flags&C)!=0 and not cafter
        return s.duplex(data,cbefore,cafter,False)
    def ad(s,d,more=False): s.operate(A_,d,more)
    def metaad(s,d,more=False): s.operate(A_|M_,d,more)
    def key(s,d): s.operate(A_|C,d,False)
    def prf(s,n): return bytes(s.operate(I|A_|C,bytes(n),False))
le32=lambda n:struct.pack('<I',n)
class Transcript:
    def __init__(t,label): t.s=Strobe(b'Merlin v1.0'); t.append(b'dom-sep',label)
    def append(t,label,msg): t.s.metaad(label); t.s.metaad(le32(len(msg)),True); t.s.ad(msg)
    def extract(t,label,n): t.s.metaad(label); t.s.metaad(le32(n),True); return t.s.prf(n)
class Rng:
    def __init__(r,t): r.s=copy.deepcopy(t.s)
    def rekey(r,label,w): r.s.metaad(label); r.s.metaad(le32(len(w)),True); r.s.key(w)
    def final(r,ent): r.s.metaad(b'rng'); r.s.key(ent)
    def read(r,n): r.s.metaad(le32(n)); return r.s.prf(n)
random.seed(11)
LEN=[0,1,2,3,4,5,30,100,160,161,162,163,164,165,166,167,168,169,170,331,332,333,334,335,500,1024]
h=lambda b: b.hex() if b else '-'
lines=[]; exp=[]
TR={}; R={}
nid=0
for trial in range(300):
    name=f"t{trial}"; lab=random.randbytes(random.choice([0,1,7,11,60,160,166]))
    lines.append(f"new {name} {h(lab)}"); TR[name]=Transcript(lab); live=[name]
    for step in range(random.randint(1,14)):
        t=random.choice(live); op=random.random()
        if op<0.45:
            l=random.randbytes(random.choice([0,1,5,9,60,164,166])); m=random.randbytes(random.choice(LEN))
            lines.append(f"append {t} {h(l)} {h(m)}"); TR[t].append(l,m)
        elif op<0.75:
            l=random.randbytes(random.choice([0,1,5,9,162])); n=random.choice(LEN)
            lines.append(f"extract {t} {h(l)} {n}"); exp.append(TR[t].extract(l,n).hex())
        elif op<0.85:
            nid+=1; c=f"c{nid}"; lines.append(f"clone {t} {c}"); TR[c]=copy.deepcopy(TR[t]); live.append(c)
        else:
            nid+=1; r=f"r{nid}"; lines.append(f"rng {t} {r}"); R[r]=Rng(TR[t])
            for _ in range(random.randint(0,2)):
                l=random.randbytes(random.choice([0,3,7])); w=random.randbytes(random.choice([0,1,32,166,200]))
                lines.append(f"rekey {r} {h(l)} {h(w)}"); R[r].rekey(l,w)
            ent=random.randbytes(32); lines.append(f"final {r} {h(ent)}"); R[r].final(ent)
            for _ in range(random.randint(1,3)):
                n=random.choice(LEN); lines.append(f"read {r} {n}"); exp.append(R[r].read(n).hex())
out=subprocess.run(['./mchk'],input="\n".join(lines)+"\n",capture_output=True,text=True).stdout.splitlines()
bad=sum(1 for a,b in zip(out,exp) if a!=b)
print('ops',len(lines),'outputs',len(exp),len(out),'bad',bad)
# upstream vector sanity: merlin "test protocol" simple
t=Transcript(b'test protocol'); t.append(b'some label',b'some data'); print(t.extract(b'challenge',32).hex())
