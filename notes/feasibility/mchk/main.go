package main

import (
	"bufio"
	"bytes"
	"encoding/hex"
	"fmt"
	"os"
	"strconv"
	"strings"

	"github.com/oasisprotocol/curve25519-voi/primitives/merlin"
)

func unhex(s string) []byte {
	if s == "-" {
		return []byte{}
	}
	b, _ := hex.DecodeString(s)
	return b
}

func main() {
	sc := bufio.NewScanner(os.Stdin)
	sc.Buffer(make([]byte, 1<<22), 1<<22)
	w := bufio.NewWriter(os.Stdout)
	defer w.Flush()
	ts := map[string]*merlin.Transcript{}
	rbs := map[string]*merlin.TranscriptRngBuilder{}
	rngs := map[string]interface{ Read([]byte) (int, error) }{}
	for sc.Scan() {
		f := strings.Split(sc.Text(), " ")
		switch f[0] {
		case "new":
			ts[f[1]] = merlin.NewTranscript(string(unhex(f[2])))
		case "append":
			ts[f[1]].AppendMessage(string(unhex(f[2])), unhex(f[3]))
		case "extract":
			n, _ := strconv.Atoi(f[3])
			d := bytes.Repeat([]byte{0xaa}, n) // dirty destination
			ts[f[1]].ExtractBytes(d, string(unhex(f[2])))
			fmt.Fprintln(w, hex.EncodeToString(d))
		case "clone":
			ts[f[2]] = ts[f[1]].Clone()
		case "rng":
			rbs[f[2]] = ts[f[1]].BuildRng()
		case "rekey":
			rbs[f[1]].RekeyWithWitnessBytes(string(unhex(f[2])), unhex(f[3]))
		case "final":
			r, _ := rbs[f[1]].Finalize(bytes.NewReader(unhex(f[2])))
			rngs[f[1]] = r
		case "read":
			n, _ := strconv.Atoi(f[2])
			d := bytes.Repeat([]byte{0x55}, n)
			_, _ = rngs[f[1]].Read(d)
			fmt.Fprintln(w, hex.EncodeToString(d))
		}
	}
}
