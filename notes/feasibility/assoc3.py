from sympy import symbols, together, fraction, expand, reduced
x1,y1,x2,y2,x3,y3,d=symbols('x1 y1 x2 y2 x3 y3 d')
def add(P,Q):
    (xa,ya),(xb,yb)=P,Q
    return ((xa*yb+ya*xb)/(1+d*xa*xb*ya*yb), (ya*yb+xa*xb)/(1-d*xa*xb*ya*yb))
L=add(add((x1,y1),(x2,y2)),(x3,y3)); R=add((x1,y1),add((x2,y2),(x3,y3)))
e=[ -x**2+y**2-1-d*x**2*y**2 for (x,y) in ((x1,y1),(x2,y2),(x3,y3))]
f=lambda s:str(s).replace("**","^")
out=["import Mathlib.Tactic.LinearCombination","import Mathlib.Algebra.Field.Basic","variable {K : Type*} [Field K]"]
for k in (0,1):
    ln,ld=fraction(together(L[k])); rn,rd=fraction(together(R[k]))
    N=expand(ln*rd-rn*ld)
    Q,r=reduced(N,e,x1,y1,x2,y2,x3,y3,d,order='grevlex')
    assert r==0
    out.append(f"""set_option maxHeartbeats 2000000 in
theorem assoc_num_{k} (d x1 y1 x2 y2 x3 y3 : K)
    (h1 : {f(e[0])} = 0) (h2 : {f(e[1])} = 0) (h3 : {f(e[2])} = 0) :
    ({f(ln)}) * ({f(rd)}) - ({f(rn)}) * ({f(ld)}) = 0 := by
  linear_combination ({f(Q[0])}) * h1 + ({f(Q[1])}) * h2 + ({f(Q[2])}) * h3
""")
open('/tmp/scratch/Feas/Feas/Assoc.lean','w').write("\n".join(out))
