package main

import (
	"fmt"

	"github.com/oasisprotocol/curve25519-voi/curve"
	"github.com/oasisprotocol/curve25519-voi/primitives/ed25519"
	"github.com/oasisprotocol/curve25519-voi/primitives/ed25519/extra/cache"
)

func key(i byte) (curve.CompressedEdwardsY, *ed25519.ExpandedPublicKey) {
	seed := make([]byte, 32)
	seed[0] = i
	sk := ed25519.NewKeyFromSeed(seed)
	var c curve.CompressedEdwardsY
	copy(c[:], sk[32:])
	x, _ := ed25519.NewExpandedPublicKey(ed25519.PublicKey(sk[32:]))
	return c, x
}

func main() {
	c := cache.NewLRUCache(1)
	k1, _ := key(1)
	_, e2 := key(2)
	k3, e3 := key(3)
	k4, e4 := key(4)
	c.Put(&k1, e2) // mismatched pair (API misuse)
	c.Put(&k3, e3) // evicts list tail, deletes store[e2.CompressedY()] = no-op
	c.Put(&k4, e4)
	n := 0
	for _, k := range []*curve.CompressedEdwardsY{&k1, &k3, &k4} {
		if c.Get(k) != nil {
			n++
		}
	}
	fmt.Println("capacity 1, keys still retrievable after three puts:", n)
	// well-formed use
	c2 := cache.NewLRUCache(2)
	ka, ea := key(5)
	kb, eb := key(6)
	kc, ec := key(7)
	c2.Put(&ka, ea)
	c2.Put(&kb, eb)
	c2.Get(&ka)
	c2.Put(&kc, ec) // evicts kb
	fmt.Println("LRU order respected:", c2.Get(&ka) != nil, c2.Get(&kb) == nil, c2.Get(&kc) != nil)
}
