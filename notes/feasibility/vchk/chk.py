import random, subprocess, sys, hashlib
sys.path.insert(0,'/tmp/scratch/edchk'); sys.path.insert(0,'/tmp/scratch/hchk'); sys.path.insert(0,'/tmp/scratch/ptchk')
from ref import *
import importlib.util
def load(path,name,stop):
    src=open(path).read().split(stop)[0]
    g={}; exec(compile(src,path,'exec'),g); return g
H2=load('/tmp/scratch/hchk/chk.py','h2',"h=lambda b:b.hex() if b else '-'")
PT=load('/tmp/scratch/ptchk/chk.py','pt',"h=lambda n:(n%2**256)")
nu=H2['nu']; r_decode=PT['r_decode']
random.seed(4)
DST=b"ECVRF_edwards25519_XMD:SHA-512_ELL2_NU_\x04"
def vrf_prove(seed,alpha,v10=False):
    hh=hashlib.sha512(seed).digest(); x=int.from_bytes(hh[:32],'little'); x&=(1<<254)-8; x|=1<<254
    Y=encode(mul(x,B))
    Hs=nu(DST,Y+alpha); Hp=decode(Hs)
    G=mul(x,Hp); k=int.from_bytes(hashlib.sha512(hh[32:]+Hs).digest(),'little')%L
    U=mul(k,B); V=mul(k,Hp)
    c=int.from_bytes(hashlib.sha512(b'\x04\x02'+(b'' if v10 else Y)+Hs+encode(G)+encode(U)+encode(V)+b'\0').digest()[:16],'little')
    s=(k+c*x)%L
    return encode(G)+c.to_bytes(16,'little')+s.to_bytes(32,'little'), Y
def vrf_hash(pi):
    G=decode(pi[:32]); return hashlib.sha512(b'\x04\x03'+encode(mul(8,G))+b'\0').digest()
def vrf_verify(Y,pi,alpha):
    if len(Y)!=32 or len(pi)!=80: return False
    if not is_canonical(Y): return False
    Yp=decode(Y)
    if Yp is None or small(Yp): return False
    if not is_canonical(pi[:32]): return False
    G=decode(pi[:32])
    if G is None: return False
    c=int.from_bytes(pi[32:48],'little'); s=int.from_bytes(pi[48:],'little')
    if s>=L: return False
    Hs=nu(DST,Y+alpha); Hp=decode(Hs)
    U=add(mul(s,B),neg(mul(c,Yp))); V=add(mul(s,Hp),neg(mul(c,G)))
    c2=int.from_bytes(hashlib.sha512(b'\x04\x02'+Y+Hs+pi[:32]+encode(U)+encode(V)+b'\0').digest()[:16],'little')
    return c==c2
h=lambda b:b.hex() if b else '-'
lines=[];exp=[]
TOR=None
for i in range(60):
    seed=random.randbytes(32); alpha=random.randbytes(random.choice([0,1,32,100,300]))
    pi,Y=vrf_prove(seed,alpha); pi10,_=vrf_prove(seed,alpha,True); beta=vrf_hash(pi)
    lines.append(f"prove {h(seed)} {h(alpha)}"); exp.append(f"{pi.hex()} {pi10.hex()} {beta.hex()} true true true false")
    # mutations for verify
    muts=[]
    s=int.from_bytes(pi[48:],'little')
    muts.append(pi[:48]+((s+L)%2**256).to_bytes(32,'little'))
    for _ in range(4):
        j=random.randrange(640); m=bytearray(pi); m[j//8]^=1<<(j%8); muts.append(bytes(m))
    muts+= [pi[:79],pi+b'\0',bytes(80),pi]
    for m in muts:
        lines.append(f"verify {Y.hex()} {h(m)} {h(alpha)}"); ok=vrf_verify(Y,m,alpha); exp.append(f"{str(ok).lower()} {vrf_hash(m).hex() if ok else ''}".rstrip()+('' if ok else ' '))
    for Yb in [encode((0,1)),encode((0,p-1)),((1)|(1<<255)).to_bytes(32,'little'),(p+1).to_bytes(32,'little'),random.randbytes(32)]:
        lines.append(f"verify {Yb.hex()} {pi.hex()} {h(alpha)}"); ok=vrf_verify(Yb,pi,alpha); exp.append(f"{str(ok).lower()} ")
# sr25519 decoders
for i in range(1500):
    b=bytearray(random.randbytes(64))
    r=random.random()
    if r<0.3: b[63]|=128
    if r<0.25: b[63]&=0x8f
    if r<0.1: b[32:]=((L-1)|(1<<255)).to_bytes(32,'little')
    elif r<0.15: b[32:]=((L)|(1<<255)).to_bytes(32,'little')
    b=bytes(b); s=int.from_bytes(b[32:],'little')
    okk = (s>>255)==1 and (s&(2**255-1))<L
    lines.append(f"srsig {b.hex()}"); exp.append(str(okk).lower())
for n in (0,31,63,65): lines.append(f"srsig {h(bytes([255])*n)}"); exp.append('false')
for i in range(800):
    b=(2*random.getrandbits(254)).to_bytes(32,'little') if i%2 else random.randbytes(32)
    P=r_decode(b); lines.append(f"srpk {b.hex()}"); exp.append(f"true {b.hex()}" if P is not None else "false")
for v in [0,1,L-1,L,L+1,2**255-1,2**255,2**256-1]+[random.getrandbits(253) for _ in range(50)]:
    b=v.to_bytes(32,'little')+random.randbytes(32); lines.append(f"srsk {b.hex()}"); exp.append(f"true {b.hex()}" if v<L else "false")
for i in range(60):
    lines.append(f"srsign {random.randbytes(32).hex()} {random.choice('ue')} {h(random.randbytes(random.choice([0,5,200])))} {h(random.randbytes(random.choice([0,1,166,400])))}"); exp.append(None)
out=subprocess.run(['./vchk'],input="\n".join(lines)+"\n",capture_output=True,text=True).stdout.splitlines()
bad=[]
for l,a,b in zip(lines,out,exp):
    if b is None:
        f=a.split()
        if f[2:]!=['true','true','true','true','true']: bad.append((l[:30],a[-40:],'sr'))
    elif a.strip()!=b.strip(): bad.append((l[:50],a[:90],b[:90]))
print('cases',len(lines),len(out),'bad',len(bad)); print(bad[:4])
