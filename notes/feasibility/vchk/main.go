package main

import (
	"bufio"
	"bytes"
	"encoding/hex"
	"fmt"
	"os"
	"strings"

	"github.com/oasisprotocol/curve25519-voi/primitives/ed25519"
	"github.com/oasisprotocol/curve25519-voi/primitives/ed25519/extra/ecvrf"
	"github.com/oasisprotocol/curve25519-voi/primitives/sr25519"
)

func unhex(s string) []byte {
	if s == "-" {
		return []byte{}
	}
	b, _ := hex.DecodeString(s)
	return b
}

func main() {
	in := bufio.NewScanner(os.Stdin)
	in.Buffer(make([]byte, 1<<20), 1<<20)
	w := bufio.NewWriter(os.Stdout)
	defer w.Flush()
	for in.Scan() {
		f := strings.Split(in.Text(), " ")
		switch f[0] {
		case "prove":
			sk := ed25519.NewKeyFromSeed(unhex(f[1]))
			alpha := unhex(f[2])
			pi := ecvrf.Prove(sk, alpha)
			pi10 := ecvrf.Prove_v10(sk, alpha)
			rpi, _ := ecvrf.ProveWithAddedRandomness(bytes.NewReader(bytes.Repeat([]byte{7}, 32)), sk, alpha)
			beta, _ := ecvrf.ProofToHash(pi)
			rbeta, _ := ecvrf.ProofToHash(rpi)
			pk := ed25519.PublicKey(sk[32:])
			ok, vb := ecvrf.Verify(pk, pi, alpha)
			okr, vbr := ecvrf.Verify(pk, rpi, alpha)
			ok10, _ := ecvrf.Verify_v10(pk, pi10, alpha)
			x1, _ := ecvrf.Verify_v10(pk, pi, alpha)
			x2, _ := ecvrf.Verify(pk, pi10, alpha)
			fmt.Fprintln(w, hex.EncodeToString(pi), hex.EncodeToString(pi10), hex.EncodeToString(beta), ok && bytes.Equal(vb, beta), okr && bytes.Equal(vbr, beta) && bytes.Equal(rbeta, beta) && !bytes.Equal(rpi, pi), ok10, x1 || x2)
		case "verify":
			ok, beta := ecvrf.Verify(unhex(f[1]), unhex(f[2]), unhex(f[3]))
			fmt.Fprintln(w, ok, hex.EncodeToString(beta))
		case "srsig":
			_, err := sr25519.NewSignatureFromBytes(unhex(f[1]))
			fmt.Fprintln(w, err == nil)
		case "srpk":
			p, err := sr25519.NewPublicKeyFromBytes(unhex(f[1]))
			if err == nil {
				b, _ := p.MarshalBinary()
				fmt.Fprintln(w, true, hex.EncodeToString(b))
			} else {
				fmt.Fprintln(w, false)
			}
		case "srsk":
			p, err := sr25519.NewSecretKeyFromBytes(unhex(f[1]))
			if err == nil {
				b, _ := p.MarshalBinary()
				fmt.Fprintln(w, true, hex.EncodeToString(b))
			} else {
				fmt.Fprintln(w, false)
			}
		case "srsign":
			msk, _ := sr25519.NewMiniSecretKeyFromBytes(unhex(f[1]))
			var sk *sr25519.SecretKey
			if f[2] == "u" {
				sk = msk.ExpandUniform()
			} else {
				sk = msk.ExpandEd25519()
			}
			kp := sk.KeyPair()
			ctx := sr25519.NewSigningContext(unhex(f[3]))
			msg := unhex(f[4])
			sig, _ := kp.Sign(bytes.NewReader(bytes.Repeat([]byte{9}, 64)), ctx.NewTranscriptBytes(msg))
			sb, _ := sig.MarshalBinary()
			pkb, _ := kp.PublicKey().MarshalBinary()
			kpb, _ := kp.MarshalBinary()
			kp2, err := sr25519.NewKeyPairFromBytes(kpb)
			rt := err == nil
			if rt {
				kpb2, _ := kp2.MarshalBinary()
				rt = bytes.Equal(kpb, kpb2)
			}
			// corrupt keypair public key
			bad := append([]byte{}, kpb...)
			bad[64] ^= 2
			_, err = sr25519.NewKeyPairFromBytes(bad)
			ok := kp.PublicKey().Verify(ctx.NewTranscriptBytes(msg), sig)
			// mutations
			rej := true
			for _, i := range []int{0, 100, 255, 256, 300, 510} {
				m := append([]byte{}, sb...)
				m[i/8] ^= 1 << (i % 8)
				s2, e2 := sr25519.NewSignatureFromBytes(m)
				if e2 == nil && kp.PublicKey().Verify(ctx.NewTranscriptBytes(msg), s2) {
					rej = false
				}
			}
			other := sr25519.NewSigningContext(append(unhex(f[3]), 1))
			rej = rej && !kp.PublicKey().Verify(other.NewTranscriptBytes(msg), sig) && !kp.PublicKey().Verify(ctx.NewTranscriptBytes(append(msg, 0)), sig)
			bv := sr25519.NewBatchVerifier()
			bv.Add(kp.PublicKey(), ctx.NewTranscriptBytes(msg), sig)
			bv.Add(kp.PublicKey(), ctx.NewTranscriptBytes(msg), sig)
			bok, _ := bv.Verify(nil)
			fmt.Fprintln(w, hex.EncodeToString(pkb), hex.EncodeToString(sb), ok, rej, rt, err != nil, bok)
		}
	}
}
