import Mathlib.Tactic.LinearCombination
import Mathlib.Algebra.Field.Basic
variable {K : Type*} [Field K]
theorem closure_num (d x1 y1 x2 y2 : K)
    (h1 : -x1^2+y1^2-1-d*x1^2*y1^2 = 0) (h2 : -x2^2+y2^2-1-d*x2^2*y2^2 = 0) :
    -(x1*y2+y1*x2)^2*(1-d*x1*x2*y1*y2)^2 + (y1*y2+x1*x2)^2*(1+d*x1*x2*y1*y2)^2
      - (1+d*x1*x2*y1*y2)^2*(1-d*x1*x2*y1*y2)^2 - d*(x1*y2+y1*x2)^2*(y1*y2+x1*x2)^2 = 0 := by
  linear_combination (d^3*x1^2*x2^4*y1^2*y2^4 - d^2*x1^2*x2^4*y2^4 + d^2*x2^4*y1^2*y2^4 - d^2*x2^4*y2^4 - d*x1^2*x2^4*y2^2 + d*x1^2*x2^2*y2^4 + d*x2^4*y1^2*y2^2 - 2*d*x2^4*y2^4 - d*x2^2*y1^2*y2^4 - 2*d*x2^2*y2^2 - 2*x2^4*y2^2 + x2^4 + 2*x2^2*y2^4 - 4*x2^2*y2^2 + y2^4) * h1 + (d*x1^4*x2^2*y2^2 + 2*d*x1^2*x2^2*y2^2 + d*x2^2*y1^4*y2^2 - 2*d*x2^2*y1^2*y2^2 + d*x2^2*y2^2 + 2*x1^2*x2^2*y2^2 - x1^2*x2^2 + x1^2*y2^2 - 2*x2^2*y1^2*y2^2 + x2^2*y1^2 + 2*x2^2*y2^2 - x2^2 - y1^2*y2^2 + y2^2 + 1) * h2
