/- prototype: deep-embedded straight-line limb IR + verified interval analysis -/
namespace IR

inductive Op where
  | const (n : Nat)
  | add (a b : Nat)
  | mul (a b : Nat)
  | sub (a b : Nat)      -- exact, needs lo a ≥ hi b
  | shr (a k : Nat)
  | low (a k : Nat)      -- a % 2^k
  deriving Repr, DecidableEq

abbrev Env := List Nat

def get (e : Env) (i : Nat) : Nat := e.getD i 0

def Op.eval (e : Env) : Op → Nat
  | .const n => n
  | .add a b => get e a + get e b
  | .mul a b => get e a * get e b
  | .sub a b => get e a - get e b
  | .shr a k => get e a / 2^k
  | .low a k => get e a % 2^k

def run : List Op → Env → Env
  | [], e => e
  | op :: ops, e => run ops (e ++ [op.eval e])

structure Itv where (lo hi : Nat) deriving Repr, DecidableEq
abbrev AEnv := List Itv
def aget (a : AEnv) (i : Nat) : Itv := a.getD i ⟨0,0⟩

/-- abstract step; none = cannot justify -/
def Op.abs (a : AEnv) : Op → Option Itv
  | .const n => some ⟨n, n⟩
  | .add x y => some ⟨(aget a x).lo + (aget a y).lo, (aget a x).hi + (aget a y).hi⟩
  | .mul x y => some ⟨(aget a x).lo * (aget a y).lo, (aget a x).hi * (aget a y).hi⟩
  | .sub x y => if (aget a y).hi ≤ (aget a x).lo then some ⟨(aget a x).lo - (aget a y).hi, (aget a x).hi - (aget a y).lo⟩ else none
  | .shr x k => some ⟨(aget a x).lo / 2^k, (aget a x).hi / 2^k⟩
  | .low x k => if (aget a x).hi < 2^k then some (aget a x) else some ⟨0, 2^k - 1⟩

def arun : List Op → AEnv → Option AEnv
  | [], a => some a
  | op :: ops, a => match op.abs a with
    | none => none
    | some i => arun ops (a ++ [i])

def Sat (e : Env) (a : AEnv) : Prop :=
  e.length = a.length ∧ ∀ i, i < a.length → (aget a i).lo ≤ get e i ∧ get e i ≤ (aget a i).hi

theorem get_append_lt (e : Env) (x : Nat) (i : Nat) (h : i < e.length) : get (e ++ [x]) i = get e i := by
  simp [get, List.getD, List.getElem?_append_left h]

theorem get_append_eq (e : Env) (x : Nat) : get (e ++ [x]) e.length = x := by
  simp [get, List.getD]

theorem aget_append_lt (e : AEnv) (x : Itv) (i : Nat) (h : i < e.length) : aget (e ++ [x]) i = aget e i := by
  simp [aget, List.getD, List.getElem?_append_left h]

theorem aget_append_eq (e : AEnv) (x : Itv) : aget (e ++ [x]) e.length = x := by
  simp [aget, List.getD]

theorem Sat.push {e : Env} {a : AEnv} (h : Sat e a) (v : Nat) (i : Itv) (hv : i.lo ≤ v ∧ v ≤ i.hi) :
    Sat (e ++ [v]) (a ++ [i]) := by
  refine ⟨by simp [h.1], ?_⟩
  intro j hj
  simp at hj
  by_cases hlt : j < a.length
  · rw [aget_append_lt _ _ _ hlt, get_append_lt _ _ _ (h.1 ▸ hlt)]; exact h.2 j hlt
  · have : j = a.length := by omega
    subst this
    rw [aget_append_eq]
    have : get (e ++ [v]) a.length = v := by rw [← h.1]; exact get_append_eq e v
    rw [this]; exact hv

/-- variables referenced must be in scope -/
def Op.wf (n : Nat) : Op → Bool
  | .const _ => true
  | .add a b | .mul a b | .sub a b => a < n && b < n
  | .shr a _ | .low a _ => a < n

theorem step_sound (e : Env) (a : AEnv) (h : Sat e a) (op : Op) (i : Itv)
    (hwf : op.wf a.length = true) (habs : op.abs a = some i) : i.lo ≤ op.eval e ∧ op.eval e ≤ i.hi := by
  cases op with
  | const n => simp [Op.abs] at habs; subst habs; simp [Op.eval]
  | add x y =>
    simp [Op.wf] at hwf; simp [Op.abs] at habs; subst habs
    have hx := h.2 x hwf.1; have hy := h.2 y hwf.2
    simp [Op.eval]; omega
  | mul x y =>
    simp [Op.wf] at hwf; simp [Op.abs] at habs; subst habs
    have hx := h.2 x hwf.1; have hy := h.2 y hwf.2
    simp [Op.eval]
    exact ⟨Nat.mul_le_mul hx.1 hy.1, Nat.mul_le_mul hx.2 hy.2⟩
  | sub x y =>
    simp [Op.wf] at hwf; simp [Op.abs] at habs
    obtain ⟨hle, rfl⟩ := habs
    have hx := h.2 x hwf.1; have hy := h.2 y hwf.2
    simp [Op.eval]; omega
  | shr x k =>
    simp [Op.wf] at hwf; simp [Op.abs] at habs; subst habs
    have hx := h.2 x hwf
    simp [Op.eval]
    exact ⟨Nat.div_le_div_right hx.1, Nat.div_le_div_right hx.2⟩
  | low x k =>
    simp [Op.wf] at hwf; simp [Op.abs] at habs
    have hx := h.2 x hwf
    have hpos : 0 < 2^k := Nat.two_pow_pos k
    split at habs
    · next hlt => simp at habs; subst habs; simp [Op.eval]; rw [Nat.mod_eq_of_lt (by omega)]; exact hx
    · simp at habs; subst habs; simp [Op.eval]
      have := Nat.mod_lt (get e x) hpos; omega

def wfProg : Nat → List Op → Bool
  | _, [] => true
  | n, op :: ops => op.wf n && wfProg (n+1) ops

theorem run_sound : ∀ (ops : List Op) (e : Env) (a a' : AEnv), Sat e a → wfProg a.length ops = true →
    arun ops a = some a' → Sat (run ops e) a' := by
  intro ops
  induction ops with
  | nil => intro e a a' h _ hr; simp [arun] at hr; subst hr; exact h
  | cons op ops ih =>
    intro e a a' h hwf hr
    simp [wfProg] at hwf
    simp [arun] at hr
    split at hr
    · simp at hr
    · next i hi =>
      have hs := step_sound e a h op i hwf.1 hi
      apply ih (e ++ [op.eval e]) (a ++ [i]) a' (h.push _ _ hs)
      · simpa using hwf.2
      · exact hr

end IR
