package main

import (
	"crypto"
	_ "crypto/sha512"
	"fmt"
	"math/rand"
	"sort"

	"golang.org/x/crypto/sha3"

	"github.com/oasisprotocol/curve25519-voi/curve"
	"github.com/oasisprotocol/curve25519-voi/curve/scalar"
	"github.com/oasisprotocol/curve25519-voi/primitives/ed25519"
	"github.com/oasisprotocol/curve25519-voi/primitives/ed25519/extra/cache"
	"github.com/oasisprotocol/curve25519-voi/primitives/ed25519/extra/ecvrf"
	"github.com/oasisprotocol/curve25519-voi/primitives/h2c"
	"github.com/oasisprotocol/curve25519-voi/primitives/merlin"
	"github.com/oasisprotocol/curve25519-voi/primitives/sr25519"
	"github.com/oasisprotocol/curve25519-voi/primitives/x25519"
)

type api struct {
	name string
	f    func(b []byte) string
}

func e(err error) string {
	if err != nil {
		return "err"
	}
	return "ok"
}
func bl(b bool) string {
	if b {
		return "true"
	}
	return "false"
}

func main() {
	seed := make([]byte, 32)
	sk := ed25519.NewKeyFromSeed(seed)
	pk := sk.Public().(ed25519.PublicKey)
	msg := []byte("m")
	sig := ed25519.Sign(sk, msg)
	cv := cache.NewVerifier(cache.NewLRUCache(2))
	ctx := sr25519.NewSigningContext([]byte("c"))
	apis := []api{
		{"scalar.SetBytesModOrder", func(b []byte) string { _, err := scalar.New().SetBytesModOrder(b); return e(err) }},
		{"scalar.SetBytesModOrderWide", func(b []byte) string { _, err := scalar.New().SetBytesModOrderWide(b); return e(err) }},
		{"scalar.SetCanonicalBytes", func(b []byte) string { _, err := scalar.New().SetCanonicalBytes(b); return e(err) }},
		{"scalar.SetBits", func(b []byte) string { _, err := scalar.New().SetBits(b); return e(err) }},
		{"scalar.UnmarshalBinary", func(b []byte) string { return e(scalar.New().UnmarshalBinary(b)) }},
		{"scalar.ToBytes(out)", func(b []byte) string { return e(scalar.New().ToBytes(b)) }},
		{"scalar.ScMinimalVartime", func(b []byte) string { return bl(scalar.ScMinimalVartime(b)) }},
		{"CompressedEdwardsY.SetBytes", func(b []byte) string { var c curve.CompressedEdwardsY; _, err := c.SetBytes(b); return e(err) }},
		{"CompressedEdwardsY.UnmarshalBinary", func(b []byte) string { var c curve.CompressedEdwardsY; return e(c.UnmarshalBinary(b)) }},
		{"EdwardsPoint.UnmarshalBinary", func(b []byte) string { var c curve.EdwardsPoint; return e(c.UnmarshalBinary(b)) }},
		{"CompressedRistretto.SetBytes", func(b []byte) string { var c curve.CompressedRistretto; _, err := c.SetBytes(b); return e(err) }},
		{"CompressedRistretto.UnmarshalBinary", func(b []byte) string { var c curve.CompressedRistretto; return e(c.UnmarshalBinary(b)) }},
		{"RistrettoPoint.UnmarshalBinary", func(b []byte) string { var c curve.RistrettoPoint; return e(c.UnmarshalBinary(b)) }},
		{"RistrettoPoint.SetUniformBytes", func(b []byte) string { var c curve.RistrettoPoint; _, err := c.SetUniformBytes(b); return e(err) }},
		{"MontgomeryPoint.SetBytes", func(b []byte) string { var c curve.MontgomeryPoint; _, err := c.SetBytes(b); return e(err) }},
		{"ed25519.Verify(pk=b)", func(b []byte) string { return bl(ed25519.Verify(b, msg, sig)) }},
		{"ed25519.Verify(sig=b)", func(b []byte) string { return bl(ed25519.Verify(pk, msg, b)) }},
		{"ed25519.Verify(msg=b)", func(b []byte) string { return bl(ed25519.Verify(pk, b, sig)) }},
		{"ed25519.VerifyWithOptions(ph,msg=b)", func(b []byte) string {
			return bl(ed25519.VerifyWithOptions(pk, b, sig, &ed25519.Options{Hash: crypto.SHA512}))
		}},
		{"ed25519.VerifyWithOptions(ctx=b)", func(b []byte) string {
			return bl(ed25519.VerifyWithOptions(pk, msg, sig, &ed25519.Options{Context: string(b)}))
		}},
		{"ed25519.NewExpandedPublicKey", func(b []byte) string { _, err := ed25519.NewExpandedPublicKey(b); return e(err) }},
		{"ed25519.NewKeyFromSeed", func(b []byte) string { ed25519.NewKeyFromSeed(b); return "ok" }},
		{"ed25519.Sign(sk=b)", func(b []byte) string { ed25519.Sign(b, msg); return "ok" }},
		{"ed25519.PrivateKey(b).Sign", func(b []byte) string { _, err := ed25519.PrivateKey(b).Sign(nil, msg, &ed25519.Options{}); return e(err) }},
		{"ed25519.PrivateKey(b).Public", func(b []byte) string { ed25519.PrivateKey(b).Public(); return "ok" }},
		{"ed25519.PrivateKey(b).Seed", func(b []byte) string { ed25519.PrivateKey(b).Seed(); return "ok" }},
		{"batch.Add(pk=b)+Verify", func(b []byte) string { v := ed25519.NewBatchVerifier(); v.Add(b, msg, sig); ok, _ := v.Verify(nil); return bl(ok) }},
		{"batch.Add(sig=b)+Verify", func(b []byte) string { v := ed25519.NewBatchVerifier(); v.Add(pk, msg, b); ok, _ := v.Verify(nil); return bl(ok) }},
		{"batch.AddWithOptions(ph,msg=b)", func(b []byte) string {
			v := ed25519.NewBatchVerifier()
			v.AddWithOptions(pk, b, sig, &ed25519.Options{Hash: crypto.SHA512})
			ok, _ := v.Verify(nil)
			return bl(ok)
		}},
		{"cache.Verify(pk=b)", func(b []byte) string { return bl(cv.Verify(b, msg, sig)) }},
		{"cache.Verify(sig=b)", func(b []byte) string { return bl(cv.Verify(pk, msg, b)) }},
		{"cache.AddPublicKey", func(b []byte) string { cv.AddPublicKey(b); return "ok" }},
		{"ecvrf.Verify(pk=b)", func(b []byte) string { ok, _ := ecvrf.Verify(b, make([]byte, 80), msg); return bl(ok) }},
		{"ecvrf.Verify(pi=b)", func(b []byte) string { ok, _ := ecvrf.Verify(pk, b, msg); return bl(ok) }},
		{"ecvrf.ProofToHash", func(b []byte) string { _, err := ecvrf.ProofToHash(b); return e(err) }},
		{"ecvrf.Prove(sk=b)", func(b []byte) string { ecvrf.Prove(b, msg); return "ok" }},
		{"x25519.X25519(scalar=b)", func(b []byte) string { _, err := x25519.X25519(b, x25519.Basepoint); return e(err) }},
		{"x25519.X25519(point=b)", func(b []byte) string { _, err := x25519.X25519(seed, b); return e(err) }},
		{"x25519.EdPrivateKeyToX25519", func(b []byte) string { x25519.EdPrivateKeyToX25519(b); return "ok" }},
		{"x25519.EdPublicKeyToX25519", func(b []byte) string { _, ok := x25519.EdPublicKeyToX25519(b); return bl(ok) }},
		{"sr25519.NewSignatureFromBytes", func(b []byte) string { _, err := sr25519.NewSignatureFromBytes(b); return e(err) }},
		{"sr25519.NewPublicKeyFromBytes", func(b []byte) string { _, err := sr25519.NewPublicKeyFromBytes(b); return e(err) }},
		{"sr25519.NewSecretKeyFromBytes", func(b []byte) string { _, err := sr25519.NewSecretKeyFromBytes(b); return e(err) }},
		{"sr25519.NewSecretKeyFromEd25519Bytes", func(b []byte) string { _, err := sr25519.NewSecretKeyFromEd25519Bytes(b); return e(err) }},
		{"sr25519.NewKeyPairFromBytes", func(b []byte) string { _, err := sr25519.NewKeyPairFromBytes(b); return e(err) }},
		{"sr25519.NewMiniSecretKeyFromBytes", func(b []byte) string { _, err := sr25519.NewMiniSecretKeyFromBytes(b); return e(err) }},
		{"sr25519.zero-value pk.Verify", func(b []byte) string {
			var p sr25519.PublicKey
			var s sr25519.Signature
			return bl(p.Verify(ctx.NewTranscriptBytes(b), &s))
		}},
		{"h2c.ExpandMessageXMD(out len)", func(b []byte) string { return e(h2c.ExpandMessageXMD(b, crypto.SHA512, []byte("d"), msg)) }},
		{"h2c.ExpandMessageXMD(dst=b)", func(b []byte) string { return e(h2c.ExpandMessageXMD(make([]byte, 32), crypto.SHA512, b, msg)) }},
		{"h2c.ExpandMessageXOF(dst=b)", func(b []byte) string {
			return e(h2c.ExpandMessageXOF(make([]byte, 32), sha3.NewShake128(), b, msg))
		}},
		{"h2c.Edwards25519_XMD_SHA512_ELL2_RO(msg=b)", func(b []byte) string { _, err := h2c.Edwards25519_XMD_SHA512_ELL2_RO([]byte("d"), b); return e(err) }},
		{"merlin.Append/Extract(b)", func(b []byte) string {
			t := merlin.NewTranscript(string(b))
			t.AppendMessage(string(b), b)
			t.ExtractBytes(b, string(b))
			return "ok"
		}},
	}
	rng := rand.New(rand.NewSource(1))
	lens := []int{}
	for i := 0; i <= 130; i++ {
		lens = append(lens, i)
	}
	lens = append(lens, 255, 256, 257, 1000)
	for _, a := range apis {
		res := map[string][]int{}
		for _, n := range lens {
			for pat := 0; pat < 3; pat++ {
				var b []byte
				if !(n == 0 && pat == 0) { // pat0,n0 => nil
					b = make([]byte, n)
				}
				switch pat {
				case 1:
					for i := range b {
						b[i] = 0xff
					}
				case 2:
					rng.Read(b)
				}
				out := func() (r string) {
					defer func() {
						if x := recover(); x != nil {
							s := fmt.Sprint(x)
							if len(s) > 48 {
								s = s[:48]
							}
							r = "PANIC(" + s + ")"
						}
					}()
					return a.f(b)
				}()
				if l := res[out]; len(l) == 0 || l[len(l)-1] != n {
					res[out] = append(res[out], n)
				}
			}
		}
		var ks []string
		for k := range res {
			ks = append(ks, k)
		}
		sort.Strings(ks)
		fmt.Printf("%-45s", a.name)
		for _, k := range ks {
			l := res[k]
			desc := fmt.Sprint(l)
			if len(l) > 6 {
				desc = fmt.Sprintf("[%d..%d #%d]", l[0], l[len(l)-1], len(l))
			}
			fmt.Printf(" %s:%s", k, desc)
		}
		fmt.Println()
	}
}
