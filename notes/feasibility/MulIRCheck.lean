import Feas.MulIR
namespace IR
def inB : AEnv := List.replicate 10 ⟨0, 2^54 - 1⟩
def outHi (a : AEnv) : List Nat := feMulOuts.map fun i => (aget a i).hi
#eval (arun feMulProg inB).map outHi
#eval (arun feMulProg inB).map (fun a => a.length)
def ok : Bool := match arun feMulProg inB with
  | some a => (outHi a).all (· < 2^52)
  | none => false
set_option maxRecDepth 10000 in
theorem feMul_itv : ok = true := by decide +kernel
end IR
