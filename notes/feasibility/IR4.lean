import Feas.IR3
namespace IR

theorem Atom.eq_of_not_lt {a b : Atom} (h1 : a.lt b = false) (h2 : b.lt a = false) : a = b := by
  cases a <;> cases b <;> simp [Atom.lt] at h1 h2 ⊢
  · omega
  · constructor <;> omega

theorem Mono.val_ins (e : Env) (a : Atom) : ∀ m : Mono, Mono.val e (Mono.ins a m) = a.val e * Mono.val e m
  | [] => by simp [Mono.ins, Mono.val]
  | b :: m => by
    simp only [Mono.ins]
    split
    · simp [Mono.val]
    · simp only [Mono.val, Mono.val_ins e a m]
      simp [Int.mul_left_comm]

theorem Mono.val_norm (e : Env) : ∀ m : Mono, Mono.val e (Mono.norm m) = Mono.val e m
  | [] => rfl
  | a :: m => by simp [Mono.norm, Mono.val_ins, Mono.val, Mono.val_norm e m]

theorem Mono.eq_of_cmp_eq : ∀ (m n : Mono), Mono.cmp m n = .eq → m = n
  | [], [], _ => rfl
  | [], _ :: _, h => by simp [Mono.cmp] at h
  | _ :: _, [], h => by simp [Mono.cmp] at h
  | a :: m, b :: n, h => by
    simp only [Mono.cmp] at h
    split at h
    · simp at h
    · split at h
      · simp at h
      · next h1 h2 =>
        have hab : a = b := Atom.eq_of_not_lt (by simpa using h1) (by simpa using h2)
        rw [hab, Mono.eq_of_cmp_eq m n h]

theorem Poly.val_ins (e : Env) (c : Int) (m : Mono) : ∀ p : Poly, (Poly.ins c m p).val e = c * Mono.val e m + p.val e
  | [] => by simp [Poly.ins, Poly.val]
  | (c', m') :: p => by
    simp only [Poly.ins]
    split
    · simp [Poly.val]
    · next h =>
      have := Mono.eq_of_cmp_eq m m' h
      subst this
      simp [Poly.val, Int.add_mul, Int.add_assoc]
    · simp only [Poly.val, Poly.val_ins e c m p]
      omega

theorem Poly.val_norm (e : Env) : ∀ p : Poly, (Poly.norm p).val e = p.val e
  | [] => rfl
  | (c, m) :: p => by simp [Poly.norm, Poly.val_ins, Mono.val_norm, Poly.val, Poly.val_norm e p]

theorem Poly.allDiv_sound (e : Env) (M : Int) : ∀ p : Poly, p.allDiv M = true → p.val e % M = 0
  | [], _ => by simp [Poly.val]
  | (c, m) :: p, h => by
    simp only [Poly.allDiv, List.all_cons, Bool.and_eq_true, beq_iff_eq] at h
    have ih := Poly.allDiv_sound e M p (by simpa [Poly.allDiv] using h.2)
    simp only [Poly.val]
    have h1 : c % M = 0 := h.1
    rw [Int.add_emod, Int.mul_emod, h1, ih]; simp

/-- the symbolic run is sound: every stored polynomial evaluates to the concrete value -/
theorem srun_sound : ∀ (ops : List Op) (e : Env) (a a' : AEnv) (s s' : SEnv),
    Sat e a → SSat e s → wfProg a.length ops = true →
    srun ops a s = some (a', s') → Sat (run ops e) a' ∧ SSat (run ops e) s' := by
  intro ops
  induction ops with
  | nil => intro e a a' s s' h hs _ hr; simp [srun] at hr; obtain ⟨rfl, rfl⟩ := hr; exact ⟨h, hs⟩
  | cons op ops ih =>
    intro e a a' s s' h hs hwf hr
    simp [wfProg] at hwf
    simp only [srun] at hr
    split at hr
    · simp at hr
    · next i hi =>
      have hb := step_sound e a h op i hwf.1 hi
      have hv := sym_sound e a s h hs op i hwf.1 hi
      have hl : a.length = s.length := by rw [← h.1, hs.1]
      have hS : SSat (e ++ [op.eval e]) (s ++ [(op.sym a s).norm]) := by
        refine ⟨by simp [hs.1], ?_⟩
        intro j hj
        simp at hj
        by_cases hlt : j < s.length
        · have e1 : sget (s ++ [(op.sym a s).norm]) j = sget s j := by
            simp [sget, List.getD, List.getElem?_append_left hlt]
          have hvj := hs.2 j hlt
          rw [e1, get_append_lt _ _ _ (hs.1 ▸ hlt)]
          -- value of an earlier polynomial does not change when the environment grows:
          -- needs a scoping lemma (all atoms refer to indices < e.length); left for the framework
          sorry
        · have : j = s.length := by omega
          subst this
          have e1 : sget (s ++ [(op.sym a s).norm]) s.length = (op.sym a s).norm := by simp [sget, List.getD]
          have e2 : get (e ++ [op.eval e]) s.length = op.eval e := by rw [← hs.1]; exact get_append_eq e _
          rw [e1, e2, Poly.val_norm]
          sorry
      exact ih _ _ _ _ _ (h.push _ _ hb) hS (by simpa using hwf.2) hr
end IR
