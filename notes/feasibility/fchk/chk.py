import random, subprocess, sys, os
p=2**255-19
mode=sys.argv[1]  # u64 | u32
random.seed(13)
if mode=='u64':
    W=[51]*5; OFF=[0,51,102,153,204]; NL=5
    mulB=[2**54-1]*5; subB=[2**54-1]*5; redB=[2**64-1]*5; outB=[2**52]*5
else:
    W=[26,25]*5; OFF=[0,26,51,77,102,128,153,179,204,230]; NL=10
    # y*19 must fit u32: all limbs <= (2^32-1)//19 ; use even 3.36*2^26 , odd likewise *2^25
    mulB=[(2**32-1)//19 if i%2==0 else (2**32-1)//38 for i in range(10)]
    subB=[(0x3ffffed<<4) if i==0 else ((0x3ffffff<<4) if i%2==0 else (0x1ffffff<<4)) for i in range(10)]
    redB=None; outB=[2**26+2**20 if i%2==0 else 2**25+2**20 for i in range(10)]
val=lambda l: sum(x<<o for x,o in zip(l,OFF))%p
def corners(B):
    cs=[[0]*NL,[1]+[0]*(NL-1),list(B),[b-1 for b in B],[b//2 for b in B]]
    for i in range(NL):
        c=[0]*NL; c[i]=B[i]; cs.append(c)
        c=list(B); c[i]=0; cs.append(c)
    cs+=[[random.randint(0,b) for b in B] for _ in range(300)]
    cs+=[[random.choice([0,1,b,b-1,random.randint(0,b)]) for b in B] for _ in range(300)]
    cs+=[[random.randint(0,(1<<w)-1) for w in W] for _ in range(100)]
    return cs
fmt=lambda l:','.join(map(str,l))
lines=[];exp=[]
A=corners(mulB); Bs=corners(mulB)
for a in A[:120]:
    for b in random.sample(Bs,12)+[Bs[2]]:
        lines.append(f"mul {fmt(a)} {fmt(b)}"); exp.append(val(a)*val(b)%p)
for a in A:
    lines.append(f"sq {fmt(a)}"); exp.append(val(a)**2%p)
    lines.append(f"pow5 {fmt(a)}"); exp.append(pow(val(a),32,p))
    lines.append(f"sq2 {fmt(a)}"); exp.append(2*val(a)**2%p)
    lines.append(f"m121666 {fmt(a)}"); exp.append(121666*val(a)%p)
S=corners(subB)
for a in S[:150]:
    for b in random.sample(S,6)+[S[2]]:
        lines.append(f"sub {fmt(a)} {fmt(b)}"); exp.append((val(a)-val(b))%p)
        lines.append(f"add {fmt(a)} {fmt(b)}"); exp.append((val(a)+val(b))%p)
    lines.append(f"neg {fmt(a)}"); exp.append((-val(a))%p)
if redB:
    for a in corners(redB): lines.append(f"red {fmt(a)}"); exp.append(val(a))
open('in.txt','w').write("\n".join(lines)+"\n")
env=dict(os.environ,GOFLAGS='-mod=mod',GOPROXY='off',GOSUMDB='off',FE_IN='/tmp/scratch/fchk/in.txt',FE_OUT='/tmp/scratch/fchk/out.txt')
tags=(['-tags','purego'] if os.environ.get('PUREGO') else []) if mode=='u64' else ['-tags','force32bit']
r=subprocess.run(['go','test','-vet=off','-overlay','/tmp/scratch/fchk/overlay.json']+tags+['./internal/field','-run','TestVerifLimbs','-count=1'],cwd='/repo',env=env,capture_output=True,text=True)
print(r.stdout.strip()[-200:],r.stderr.strip()[-300:])
out=open('out.txt').read().splitlines()
bad=0;maxl=[0]*NL
for l,o,e in zip(lines,out,exp):
    r1,r2=o.split()
    for r in (r1,r2):
        lim,hx=r.split('/'); lim=[int(x) for x in lim.split(',')]
        v=int.from_bytes(bytes.fromhex(hx),'little')
        ok=(v==e and val(lim)==e and v<p)
        if l.split()[0] not in ('add','sq2'):
            ok=ok and all(x<=b for x,b in zip(lim,outB)); maxl=[max(a,b) for a,b in zip(maxl,lim)]
        if not ok:
            bad+=1
            if bad<5: print('FAIL',l[:100],r)
print(mode,'cases',len(lines),len(out),'bad',bad,'max output limb bits',[round(__import__('math').log2(x+1),3) for x in maxl])
