import random, subprocess, sys, hashlib
sys.path.insert(0,'/tmp/scratch/edchk')
from ref import *
random.seed(2)
lines=[];exp=[]
h=lambda b:b.hex() if b else '-'
for i in range(600):
    mode=random.choice(['pure','ctx','ph'])
    ctx=b'' if mode=='pure' else random.randbytes(random.choice([1,17,255]) if mode=='ctx' else random.choice([0,3,255]))
    msg=random.randbytes(64) if mode=='ph' else random.randbytes(random.choice([0,1,31,32,63,64,111,112,127,128,129,300]))
    seed=random.randbytes(32) if i>3 else bytes([i])*32
    sv=random.choice('01')
    lines.append(f"{mode} {h(seed)} {h(ctx)} {h(msg)} {sv}")
    a,pre,A=keypair(seed); m='ctx' if (mode=='ctx') else mode
    sig=sign(seed,msg,m,ctx)
    exp.append(f"{A.hex()} {sig.hex()} true true true")
# errors: ctx too long, ph bad length
lines.append(f"ctx {h(bytes(32))} {h(bytes(256))} {h(b'x')} 0"); exp.append("err")
lines.append(f"ph {h(bytes(32))} - {h(bytes(63))} 0"); exp.append("err")
out=subprocess.run(['./kchk'],input="\n".join(lines)+"\n",capture_output=True,text=True).stdout.splitlines()
bad=[(l[:40],a[:80],b[:80]) for l,a,b in zip(lines,out,exp) if a!=b]
print('cases',len(lines),len(out),'bad',len(bad)); print(bad[:3])
