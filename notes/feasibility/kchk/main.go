package main

import (
	"bufio"
	"bytes"
	"crypto"
	stded "crypto/ed25519"
	"encoding/hex"
	"fmt"
	"os"
	"strings"

	"github.com/oasisprotocol/curve25519-voi/primitives/ed25519"
)

func unhex(s string) []byte {
	if s == "-" {
		return []byte{}
	}
	b, _ := hex.DecodeString(s)
	return b
}

func main() {
	in := bufio.NewScanner(os.Stdin)
	in.Buffer(make([]byte, 1<<20), 1<<20)
	w := bufio.NewWriter(os.Stdout)
	defer w.Flush()
	presets := []*ed25519.VerifyOptions{ed25519.VerifyOptionsDefault, ed25519.VerifyOptionsStdLib, ed25519.VerifyOptionsFIPS_186_5, ed25519.VerifyOptionsZIP_215}
	for in.Scan() {
		f := strings.Split(in.Text(), " ")
		seed, msg, ctx := unhex(f[1]), unhex(f[3]), unhex(f[2])
		sk := ed25519.NewKeyFromSeed(seed)
		opts := &ed25519.Options{Context: string(ctx)}
		sopts := &stded.Options{Context: string(ctx)}
		if f[0] == "ph" {
			opts.Hash = crypto.SHA512
			sopts.Hash = crypto.SHA512
		}
		opts.SelfVerify = f[4] == "1"
		sig, err := sk.Sign(nil, msg, opts)
		if err != nil {
			fmt.Fprintln(w, "err")
			continue
		}
		// stdlib comparison
		ssk := stded.NewKeyFromSeed(seed)
		ssig, serr := ssk.Sign(nil, msg, sopts)
		stdEq := serr == nil && bytes.Equal(ssig, sig) && bytes.Equal(ssk[32:], sk[32:])
		// randomized
		opts2 := *opts
		opts2.AddedRandomness = true
		ent := bytes.Repeat([]byte{0x42}, 32)
		rsig, _ := sk.Sign(bytes.NewReader(ent), msg, &opts2)
		rsig2, _ := sk.Sign(bytes.NewReader(bytes.Repeat([]byte{0x43}, 32)), msg, &opts2)
		allOK := true
		for _, p := range presets {
			o := *opts
			o.Verify = p
			pk := ed25519.PublicKey(sk[32:])
			allOK = allOK && ed25519.VerifyWithOptions(pk, msg, sig, &o) && ed25519.VerifyWithOptions(pk, msg, rsig, &o)
			bv := ed25519.NewBatchVerifier()
			bv.AddWithOptions(pk, msg, sig, &o)
			bv.AddWithOptions(pk, msg, rsig, &o)
			ok, _ := bv.Verify(nil)
			allOK = allOK && ok
		}
		fmt.Fprintln(w, hex.EncodeToString(sk[32:]), hex.EncodeToString(sig), stdEq, allOK, !bytes.Equal(rsig[:32], sig[:32]) && !bytes.Equal(rsig[:32], rsig2[:32]))
	}
}
