import Feas.IR
namespace IR

inductive Atom where
  | var (v : Nat)
  | quot (v k : Nat)
  deriving Repr, DecidableEq

def Atom.val (e : Env) : Atom → Int
  | .var v => (get e v : Int)
  | .quot v k => ((get e v / 2^k : Nat) : Int)

abbrev Mono := List Atom
def Mono.val (e : Env) : Mono → Int
  | [] => 1
  | a :: m => a.val e * Mono.val e m

abbrev Poly := List (Int × Mono)
def Poly.val (e : Env) : Poly → Int
  | [] => 0
  | (c, m) :: p => c * Mono.val e m + Poly.val e p

theorem Mono.val_append (e : Env) (m n : Mono) : Mono.val e (m ++ n) = Mono.val e m * Mono.val e n := by
  induction m with
  | nil => simp [Mono.val]
  | cons a m ih => simp [Mono.val, ih, Int.mul_assoc]

def Poly.add (p q : Poly) : Poly := p ++ q
theorem Poly.val_add (e : Env) (p q : Poly) : (p.add q).val e = p.val e + q.val e := by
  unfold Poly.add
  induction p with
  | nil => simp [Poly.val]
  | cons t p ih => obtain ⟨c, m⟩ := t; simp [Poly.val, ih, Int.add_assoc]

def Poly.mulMono (c : Int) (m : Mono) : Poly → Poly
  | [] => []
  | (c', m') :: q => (c * c', m ++ m') :: Poly.mulMono c m q
theorem Poly.val_mulMono (e : Env) (c : Int) (m : Mono) (q : Poly) :
    (Poly.mulMono c m q).val e = c * Mono.val e m * q.val e := by
  induction q with
  | nil => simp [Poly.mulMono, Poly.val]
  | cons t q ih =>
    obtain ⟨c', m'⟩ := t
    simp [Poly.mulMono, Poly.val, ih, Mono.val_append, Int.mul_add]
    simp [Int.mul_assoc, Int.mul_comm, Int.mul_left_comm]

def Poly.mul : Poly → Poly → Poly
  | [], _ => []
  | (c, m) :: p, q => (Poly.mulMono c m q).add (Poly.mul p q)
theorem Poly.val_mul (e : Env) (p q : Poly) : (p.mul q).val e = p.val e * q.val e := by
  induction p with
  | nil => simp [Poly.mul, Poly.val]
  | cons t p ih =>
    obtain ⟨c, m⟩ := t
    simp [Poly.mul, Poly.val_add, Poly.val_mulMono, ih, Poly.val, Int.add_mul]

def Poly.scale (k : Int) (p : Poly) : Poly := Poly.mulMono k [] p
theorem Poly.val_scale (e : Env) (k : Int) (p : Poly) : (p.scale k).val e = k * p.val e := by
  simp [Poly.scale, Poly.val_mulMono, Mono.val]

abbrev SEnv := List Poly
def sget (s : SEnv) (i : Nat) : Poly := s.getD i []

/-- symbolic step, given the interval env (for `low`) -/
def Op.sym (a : AEnv) (s : SEnv) : Op → Poly
  | .const n => [((n : Int), [])]
  | .add x y => (sget s x).add (sget s y)
  | .mul x y => (sget s x).mul (sget s y)
  | .sub x y => (sget s x).add ((sget s y).scale (-1))
  | .shr x k => [(1, [Atom.quot x k])]
  | .low x k => if (aget a x).hi < 2^k then sget s x
                else (sget s x).add (Poly.scale (-((2^k : Nat) : Int)) [(1, [Atom.quot x k])])

def SSat (e : Env) (s : SEnv) : Prop :=
  e.length = s.length ∧ ∀ i, i < s.length → (sget s i).val e = (get e i : Int)

theorem sym_sound (e : Env) (a : AEnv) (s : SEnv) (h : Sat e a) (hs : SSat e s) (op : Op) (i : Itv)
    (hwf : op.wf a.length = true) (habs : op.abs a = some i) :
    (op.sym a s).val e = (op.eval e : Int) := by
  have hl : a.length = s.length := by rw [← h.1, hs.1]
  cases op with
  | const n => simp [Op.sym, Op.eval, Poly.val, Mono.val]
  | add x y =>
    simp [Op.wf] at hwf
    simp [Op.sym, Op.eval, Poly.val_add, hs.2 x (hl ▸ hwf.1), hs.2 y (hl ▸ hwf.2)]
  | mul x y =>
    simp [Op.wf] at hwf
    simp [Op.sym, Op.eval, Poly.val_mul, hs.2 x (hl ▸ hwf.1), hs.2 y (hl ▸ hwf.2)]
  | sub x y =>
    simp [Op.wf] at hwf; simp [Op.abs] at habs
    have hx := h.2 x hwf.1; have hy := h.2 y hwf.2
    simp [Op.sym, Op.eval, Poly.val_add, Poly.val_scale, hs.2 x (hl ▸ hwf.1), hs.2 y (hl ▸ hwf.2)]
    omega
  | shr x k =>
    simp [Op.sym, Op.eval, Poly.val, Mono.val, Atom.val]
  | low x k =>
    simp [Op.wf] at hwf
    have hx := h.2 x hwf
    simp only [Op.sym]
    split
    · next hlt =>
      rw [hs.2 x (hl ▸ hwf)]; simp only [Op.eval]; rw [Nat.mod_eq_of_lt (by omega)]
    · rw [Poly.val_add, Poly.val_scale, hs.2 x (hl ▸ hwf)]
      simp only [Poly.val, Mono.val, Atom.val, Op.eval]
      have := Nat.div_add_mod (get e x) (2^k)
      generalize get e x / 2^k = q at *
      generalize get e x % 2^k = r at *
      generalize 2^k = m at *
      rw [← this]
      push_cast
      simp only [Int.one_mul, Int.mul_one, Int.add_zero, Int.neg_mul]
      omega
end IR
