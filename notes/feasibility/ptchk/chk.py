import random, subprocess, sys
sys.path.insert(0,'/tmp/scratch/edchk')
from ref import *
random.seed(3)
def neg_(x): return x&1
def sqrt_ratio_m1(u,v):
    r=(u*pow(v,3,p))*pow(u*pow(v,7,p),(p-5)//8,p)%p
    check=v*r*r%p
    c1=check==u%p; c2=check==(-u)%p; c3=check==(-u*I)%p
    if c2 or c3: r=r*I%p
    if r&1: r=p-r
    return (c1 or c2), r
def r_decode(b):
    n=int.from_bytes(b,'little')
    if n>=p or n&1: return None
    s=n; ss=s*s%p; u1=(1-ss)%p; u2=(1+ss)%p; u2s=u2*u2%p
    v=(-(d*u1*u1)-u2s)%p
    ws,inv_=sqrt_ratio_m1(1,v*u2s%p)
    dx=inv_*u2%p; dy=inv_*dx*v%p
    x=2*s*dx%p
    if x&1: x=p-x
    y=u1*dy%p; t=x*y%p
    if (not ws) or (t&1) or y==0: return None
    return (x,y)
INVSQRT_A_MINUS_D=None
def r_encode(P):
    x0,y0=P; z0=1; t0=x0*y0%p
    u1=(z0+y0)*(z0-y0)%p; u2=x0*y0%p
    _,invsqrt=sqrt_ratio_m1(1,u1*u2*u2%p)
    den1=invsqrt*u1%p; den2=invsqrt*u2%p; z_inv=den1*den2*t0%p
    ix0=x0*I%p; iy0=y0*I%p
    global INVSQRT_A_MINUS_D
    if INVSQRT_A_MINUS_D is None:
        _,INVSQRT_A_MINUS_D=sqrt_ratio_m1(1,(-1-d)%p)
    ench=den1*INVSQRT_A_MINUS_D%p
    rotate=(t0*z_inv%p)&1
    if rotate: x,y,den_inv=iy0,ix0,ench
    else: x,y,den_inv=x0,y0,den2
    if (x*z_inv%p)&1: y=(-y)%p
    s=den_inv*(z0-y)%p
    if s&1: s=p-s
    return s.to_bytes(32,'little')
def x25519(k,u):
    k=bytearray(k); k[0]&=248; k[31]&=127; k[31]|=64; k=int.from_bytes(k,'little')
    x1=int.from_bytes(u,'little')&(2**255-1); x1%=p
    x2,z2,x3,z3,swap=1,0,x1,1,0
    for t in range(254,-1,-1):
        kt=(k>>t)&1; swap^=kt
        if swap: x2,x3=x3,x2; z2,z3=z3,z2
        swap=kt
        A=(x2+z2)%p;AA=A*A%p;Bb=(x2-z2)%p;BB=Bb*Bb%p;E=(AA-BB)%p;C=(x3+z3)%p;D=(x3-z3)%p;DA=D*A%p;CB=C*Bb%p
        x3=(DA+CB)**2%p; z3=x1*(DA-CB)**2%p; x2=AA*BB%p; z2=E*(AA+121665*E)%p
    if swap: x2,x3=x3,x2; z2,z3=z3,z2
    return (x2*pow(z2,p-2,p)%p).to_bytes(32,'little')
h=lambda n:(n%2**256).to_bytes(32,'little').hex()
lines=[];meta=[]
# edwards decode: specials
ys=list(range(0,40))+[p-1,p-2,p,p+1]+[p+i for i in range(19)]+[2**255-1,2**255-20,2**254]
E=[]
for y in ys:
    for s in (0,1): E.append((y%2**255)|(s<<255))
E+=[random.getrandbits(256) for _ in range(4000)]
for n in E: lines.append(f"ed {h(n)}"); meta.append(('ed',n))
Rr=[0,1,2,p-1,p,p+1,2**255,2**255-1,2**256-1]+[2*random.getrandbits(254) for _ in range(3000)]+[random.getrandbits(256) for _ in range(500)]
# valid ristretto encodings: encode multiples of B
P=B
for i in range(60):
    Rr.append(int.from_bytes(r_encode(P),'little')); P=add(P,B)
for n in Rr: lines.append(f"ri {h(n)}"); meta.append(('ri',n%2**256))
lows=[0,1,325606250916557431795983626356110631294008115727848805560023387167927233504,39382357235489614581723060781553021112529911719440698176882885853963445705823,p-1,p,p+1,
      325606250916557431795983626356110631294008115727848805560023387167927233504+p,39382357235489614581723060781553021112529911719440698176882885853963445705823+p,2*p-1,2*p,2*p+1]
us=lows+[x|(1<<255) for x in lows if x<2**255]+[9,2**255-1,2**255-19,2**255-18]+[random.getrandbits(256) for _ in range(600)]
for u in us:
    for k in [0,1,8,2**254,2**255-1,2**256-1,random.getrandbits(256),random.getrandbits(256)]:
        lines.append(f"x {h(k)} {h(u)}"); meta.append(('x',k%2**256,u%2**256))
out=subprocess.run(['./ptchk'],input="\n".join(lines)+"\n",capture_output=True,text=True).stdout.splitlines()
assert len(out)==len(lines),(len(out),len(lines))
bad=0; acc=0
for m,o in zip(meta,out):
    f=o.split()
    if m[0]=='ed':
        b=m[1].to_bytes(32,'little'); P=decode(b); can=str(is_canonical(b))
        if P is None: ok=(f[0]=='err' and f[1].lower()==can.lower())
        else:
            acc+=1
            ok=(f[0]=='ok' and f[1]==encode(P).hex() and f[2].lower()==can.lower() and f[3].lower()==str(small(P)).lower() and f[4].lower()==str(mul(L,P)==O).lower())
            # round trip on canonical
            if is_canonical(b): ok=ok and encode(P)==b
    elif m[0]=='ri':
        b=m[1].to_bytes(32,'little'); P=r_decode(b)
        if P is None: ok=(f[0]=='err')
        else: acc+=1; ok=(f[0]=='ok' and f[1]==b.hex())
    else:
        k=m[1].to_bytes(32,'little'); u=m[2].to_bytes(32,'little'); r=x25519(k,u)
        ok=(f[0]==r.hex() and (f[1]=='true')==(r==bytes(32)) and (f[1]=='true' or f[2]==r.hex()) and f[-1]==x25519(k,(9).to_bytes(32,'little')).hex())
    if not ok:
        bad+=1
        if bad<10: print('FAIL',m[0],hex(m[1]),o)
print('lines',len(lines),'accepted',acc,'bad',bad)
