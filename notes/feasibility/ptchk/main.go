package main

import (
	"bufio"
	"encoding/hex"
	"fmt"
	"os"
	"strings"

	"github.com/oasisprotocol/curve25519-voi/curve"
	"github.com/oasisprotocol/curve25519-voi/primitives/x25519"
)

func main() {
	in := bufio.NewScanner(os.Stdin)
	w := bufio.NewWriter(os.Stdout)
	defer w.Flush()
	for in.Scan() {
		f := strings.Split(in.Text(), " ")
		b, _ := hex.DecodeString(f[1])
		switch f[0] {
		case "ed":
			var c curve.CompressedEdwardsY
			copy(c[:], b)
			var p curve.EdwardsPoint
			_, err := p.SetCompressedY(&c)
			if err != nil {
				fmt.Fprintf(w, "err %v\n", c.IsCanonicalVartime())
			} else {
				e, _ := p.MarshalBinary()
				fmt.Fprintf(w, "ok %s %v %v %v\n", hex.EncodeToString(e), c.IsCanonicalVartime(), p.IsSmallOrder(), p.IsTorsionFree())
			}
		case "ri":
			var c curve.CompressedRistretto
			copy(c[:], b)
			var p curve.RistrettoPoint
			_, err := p.SetCompressed(&c)
			if err != nil {
				fmt.Fprintln(w, "err")
			} else {
				e, _ := p.MarshalBinary()
				fmt.Fprintf(w, "ok %s\n", hex.EncodeToString(e))
			}
		case "x":
			u, _ := hex.DecodeString(f[2])
			var dst, k, uu [32]byte
			copy(k[:], b)
			copy(uu[:], u)
			x25519.ScalarMult(&dst, &k, &uu)
			r, err := x25519.X25519(b, u)
			var bm [32]byte
			x25519.ScalarBaseMult(&bm, &k)
			fmt.Fprintf(w, "%s %v %s %s\n", hex.EncodeToString(dst[:]), err != nil, hex.EncodeToString(r), hex.EncodeToString(bm[:]))
		}
	}
}
