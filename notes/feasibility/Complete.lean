import Mathlib.Tactic.LinearCombination
import Mathlib.Tactic.FieldSimp
import Mathlib.Tactic.Ring
import Mathlib.Tactic.NormNum
import Mathlib.Algebra.Field.Basic
import Mathlib.Algebra.Group.Even

variable {K : Type*} [Field K]

/-- completeness of the a = -1 twisted Edwards addition law when -1 = i², d is a non-square, char ≠ 2 -/
theorem ed_denoms_ne_zero (d i x1 y1 x2 y2 : K) (hi : i ^ 2 = -1) (hd : ¬ IsSquare d) (h2ne : (2 : K) ≠ 0)
    (h1 : -x1 ^ 2 + y1 ^ 2 = 1 + d * x1 ^ 2 * y1 ^ 2) (h2 : -x2 ^ 2 + y2 ^ 2 = 1 + d * x2 ^ 2 * y2 ^ 2)
    (ε : K) (hε : ε ^ 2 = 1) : d * x1 * x2 * y1 * y2 ≠ ε := by
  intro he
  have hε0 : ε ≠ 0 := by
    intro h; rw [h] at hε; norm_num at hε
  have hx1 : x1 ≠ 0 := by
    rintro rfl; apply hε0; rw [← he]; ring
  have hy1 : y1 ≠ 0 := by
    rintro rfl; apply hε0; rw [← he]; ring
  have key (s : K) (hs : s ^ 2 = 1) :
      (i * x1 + s * ε * y1) ^ 2 = d * x1 ^ 2 * y1 ^ 2 * (i * x2 + s * y2) ^ 2 := by
    linear_combination (x1^2 - d*x1^2*y1^2*x2^2) * hi + (ε^2*y1^2 - d*x1^2*y1^2*y2^2) * hs
      + (y1^2 - 1) * hε + (-(2*i*s*x1*y1) - (d*x1*x2*y1*y2 + ε)) * he + h1 - (d*x1^2*y1^2) * h2
  by_cases hp : i * x2 + y2 = 0
  · by_cases hm : i * x2 - y2 = 0
    · have hy2 : y2 = 0 := by
        have : (2:K) * y2 = 0 := by linear_combination hp - hm
        exact (mul_eq_zero.mp this).resolve_left h2ne
      apply hε0; rw [← he, hy2]; ring
    · apply hd
      have hk := key (-1) (by ring)
      refine ⟨(i * x1 - ε * y1) / (x1 * y1 * (i * x2 - y2)), ?_⟩
      field_simp
      linear_combination (-1 : K) * hk
  · apply hd
    have hk := key 1 (by ring)
    refine ⟨(i * x1 + ε * y1) / (x1 * y1 * (i * x2 + y2)), ?_⟩
    field_simp
    linear_combination (-1 : K) * hk
