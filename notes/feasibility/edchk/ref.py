# Python reference for Ed25519 with voi's VerifyOptions semantics (stand-in for the Lean Spec)
import hashlib, random, itertools
p=2**255-19; L=2**252+27742317777372353535851937790883648493
d=(-121665*pow(121666,p-2,p))%p; I=pow(2,(p-1)//4,p)
def inv(x): return pow(x,p-2,p)
def add(P,Q):
    x1,y1=P;x2,y2=Q; t=d*x1*x2*y1*y2%p
    return ((x1*y2+y1*x2)*inv(1+t)%p,(y1*y2+x1*x2)*inv(1-t)%p)
O=(0,1)
def neg(P): return ((-P[0])%p,P[1])
def mul(n,P):
    R=O
    while n:
        if n&1: R=add(R,P)
        P=add(P,P); n>>=1
    return R
def sqrt_ratio(u,v):  # returns x with v x^2 = u or None
    if v%p==0: return 0 if u%p==0 else None
    w=u*inv(v)%p
    x=pow(w,(p+3)//8,p)
    if (x*x-w)%p!=0: x=x*I%p
    if (x*x-w)%p!=0: return None
    return x
def decode(b):  # voi semantics: mask bit 255, y mod p, accept noncanonical, x=0 with sign ok
    if len(b)!=32: return None
    n=int.from_bytes(b,'little'); sign=n>>255; y=(n&(2**255-1))%p
    x=sqrt_ratio((y*y-1)%p,(d*y*y+1)%p)
    if x is None: return None
    if x&1: x=p-x     # nonneg root
    if sign: x=(-x)%p
    return (x,y)
def encode(P): return ((P[1])|((P[0]&1)<<255)).to_bytes(32,'little')
def is_canonical(b):
    n=int.from_bytes(b,'little'); y=n&(2**255-1)
    if y>=p: return False
    if b==((1)|(1<<255)).to_bytes(32,'little'): return False
    if b==((p-1)|(1<<255)).to_bytes(32,'little'): return False
    return True
def small(P): return mul(8,P)==O
By=4*inv(5)%p; B=decode(By.to_bytes(32,'little'))
assert mul(L,B)==O
def dom2(mode,ctx):
    if mode=='pure': return b''
    return b'SigEd25519 no Ed25519 collisions'+bytes([0 if mode=='ctx' else 1,len(ctx)])+ctx
def H(*a): return int.from_bytes(hashlib.sha512(b''.join(a)).digest(),'little')
def keypair(seed):
    h=hashlib.sha512(seed).digest(); a=int.from_bytes(h[:32],'little'); a&=(1<<254)-8; a|=1<<254
    return a,h[32:],encode(mul(a,B))
def sign(seed,msg,mode='pure',ctx=b''):
    a,prefix,A=keypair(seed); r=H(dom2(mode,ctx),prefix,msg)%L; R=encode(mul(r,B))
    k=H(dom2(mode,ctx),R,A,msg)%L; S=(r+k*a)%L
    return R+S.to_bytes(32,'little')
# flags: (SmallA, SmallR, NonCanA, NonCanR, Cofactorless)
def verify(flags,mode,ctx,pk,msg,sig):
    sA,sR,nA,nR,cl=flags
    if len(sig)!=64: return False
    S=int.from_bytes(sig[32:],'little')
    if S>=L: return False
    A=decode(pk)
    if A is None: return False
    if not sA and small(A): return False
    if not nA and not is_canonical(pk): return False
    Rb=sig[:32]
    needR = not (cl and sR)
    R=None
    if needR:
        R=decode(Rb)
        if R is None: return False
        if not sR and small(R): return False
    if not nR and not is_canonical(Rb): return False
    k=H(dom2(mode,ctx),Rb,pk,msg)%L
    X=add(mul(S,B),neg(mul(k,A)))
    if cl: return encode(X)==Rb
    return mul(8,add(X,neg(R)))==O
# declarative spec from the property statement (independent formulation)
def spec(flags,mode,ctx,pk,msg,sig):
    sA,sR,nA,nR,cl=flags
    if len(sig)!=64: return False
    S=int.from_bytes(sig[32:],'little'); Rb=sig[:32]
    A=decode(pk); R=decode(Rb)
    okA = A is not None and (sA or not small(A)) and (nA or is_canonical(pk))
    okR = R is not None and (sR or not small(R)) and (nR or is_canonical(Rb))
    if not (S<L and okA and okR): return False
    k=H(dom2(mode,ctx),Rb,pk,msg)%L
    X=add(mul(S,B),neg(mul(k,A)))
    return encode(X)==Rb if cl else mul(8,add(X,neg(R)))==O
