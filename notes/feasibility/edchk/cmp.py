import pickle, ref, collections
cases=pickle.load(open('cases.pkl','rb')); outs=open('out.txt').read().splitlines()
bad=0; hist=collections.Counter(); stdbad=0
for c,o in zip(cases,outs):
    flags,mode,ctx,pk,msg,sig,tag=c
    got,std=o.split(' ')[0],o.split(' ')[-1]
    if 'EXPANDED' in o: print('expanded differs',c[-1],o); bad+=1
    if flags[3] and flags[4]:
        exp='panic'
    else:
        m=ref.verify(flags,mode,ctx,pk,msg,sig); s=ref.spec(flags,mode,ctx,pk,msg,sig)
        assert m==s,(c,m,s)
        exp='1' if m else '0'
    hist[(tag.rstrip('0123456789'),exp)]+=1
    if got!=exp:
        bad+=1
        if bad<10: print('MISMATCH',flags,mode,tag,'got',got,'exp',exp)
    if std!='-' and std!=got: stdbad+=1; print('STD differs',tag,std,got)
print('mismatches',bad,'std mismatches',stdbad); print(sorted(hist.items()))
