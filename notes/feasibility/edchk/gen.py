import ref, random, itertools, hashlib, sys
from ref import *
random.seed(int(sys.argv[1]) if len(sys.argv)>1 else 1)
# torsion points
def find_t8():
    y=2
    while True:
        P=decode(y.to_bytes(32,'little'))
        if P is not None:
            T=mul(L,P)
            if mul(4,T)!=O: return T
        y+=1
T1=find_t8(); TOR=[mul(i,T1) for i in range(8)]
assert len(set(TOR))==8
def noncanon_encodings():
    out=[]
    for y in range(19):
        for s in (0,1):
            b=((y+p)|(s<<255)).to_bytes(32,'little')
            out.append(b)
    out.append((1|(1<<255)).to_bytes(32,'little')); out.append(((p-1)|(1<<255)).to_bytes(32,'little'))
    return out
NC=noncanon_encodings()
SMALL=[encode(T) for T in TOR]+[b for b in NC if decode(b) is not None and small(decode(b))]
cases=[]
def emit(flags,mode,ctx,pk,msg,sig,tag):
    cases.append((flags,mode,ctx,pk,msg,sig,tag))
allflags=list(itertools.product((0,1),repeat=5))
modes=[('pure',b''),('ctx',b'c'),('ctx',bytes(range(255))),('ph',b''),('ph',b'ctx')]
def mk(seed,msg,mode,ctx,ta=0,tr=0,dS=0):
    a,prefix,A0=keypair(seed); A=add(decode(A0),TOR[ta]); Ab=encode(A)
    r=H(dom2(mode,ctx),prefix,msg)%L; R=add(mul(r,B),TOR[tr]); Rb=encode(R)
    k=H(dom2(mode,ctx),Rb,Ab,msg)%L; S=(r+k*a)%L
    return Ab,Rb+((S+dS)%2**256).to_bytes(32,'little')
for flags in allflags:
    for mode,ctx in modes:
        seed=random.randbytes(32)
        msg=random.randbytes(64) if mode=='ph' else random.randbytes(random.randint(0,80))
        pk,sig=mk(seed,msg,mode,ctx); emit(flags,mode,ctx,pk,msg,sig,'honest')
        for ta,tr in [(random.randrange(1,8),0),(0,random.randrange(1,8)),(random.randrange(1,8),random.randrange(1,8))]:
            pk2,sig2=mk(seed,msg,mode,ctx,ta,tr); emit(flags,mode,ctx,pk2,msg,sig2,f'tors{ta}{tr}')
        for dS in (L,2*L,-1,1,2**255,2**252):
            pk3,sig3=mk(seed,msg,mode,ctx,dS=dS); emit(flags,mode,ctx,pk3,msg,sig3,f'dS')
        # S boundary raw
        for Sraw in (0,L-1,L,L+1,2**253,2**256-1):
            emit(flags,mode,ctx,pk,msg,sig[:32]+Sraw.to_bytes(32,'little'),'Sraw')
        # bit flips
        for _ in range(3):
            i=random.randrange(64*8); s2=bytearray(sig); s2[i//8]^=1<<(i%8); emit(flags,mode,ctx,pk,msg,bytes(s2),'flip')
        # small order / non canonical components with S=0
        for _ in range(6):
            Ab=random.choice(SMALL+NC); Rb=random.choice(SMALL+NC)
            emit(flags,mode,ctx,Ab,msg,Rb+(0).to_bytes(32,'little'),'small')
        # small-order A with honest-looking R: R=[r]B, S=r (k*A vanishes under x8)
        Ab=random.choice(SMALL); r=random.randrange(L); emit(flags,mode,ctx,Ab,msg,encode(mul(r,B))+r.to_bytes(32,'little'),'smallA')
        # honest A, small order R : S = k*a with R torsion -> cofactored holds
        a,prefix,A0=keypair(seed); Rb=random.choice(SMALL); k=H(dom2(mode,ctx),Rb,A0,msg)%L
        emit(flags,mode,ctx,A0,msg,Rb+((k*a)%L).to_bytes(32,'little'),'smallR')
        # lengths
        for n in (0,1,63,65):
            emit(flags,mode,ctx,pk,msg,sig[:n] if n<64 else sig+b'\0','len')
        # undecodable
        emit(flags,mode,ctx,random.randbytes(32),msg,sig,'randA'); emit(flags,mode,ctx,pk,msg,random.randbytes(32)+sig[32:],'randR')
with open('cases.txt','w') as f:
    for (flags,mode,ctx,pk,msg,sig,tag) in cases:
        f.write(' '.join([''.join(map(str,flags)),mode,ctx.hex() or '-',pk.hex(),msg.hex() or '-',sig.hex() or '-',tag])+'\n')
print(len(cases),'cases')
import pickle; pickle.dump(cases,open('cases.pkl','wb'))
