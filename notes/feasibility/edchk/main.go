package main

import (
	"bufio"
	"crypto"
	stded "crypto/ed25519"
	"encoding/hex"
	"fmt"
	"os"
	"strings"

	"github.com/oasisprotocol/curve25519-voi/primitives/ed25519"
)

func unhex(s string) []byte {
	if s == "-" {
		return []byte{}
	}
	b, err := hex.DecodeString(s)
	if err != nil {
		panic(err)
	}
	return b
}

func main() {
	sc := bufio.NewScanner(os.Stdin)
	sc.Buffer(make([]byte, 1<<20), 1<<20)
	w := bufio.NewWriter(os.Stdout)
	defer w.Flush()
	for sc.Scan() {
		f := strings.Split(sc.Text(), " ")
		fl := f[0]
		vo := &ed25519.VerifyOptions{
			AllowSmallOrderA: fl[0] == '1', AllowSmallOrderR: fl[1] == '1',
			AllowNonCanonicalA: fl[2] == '1', AllowNonCanonicalR: fl[3] == '1', CofactorlessVerify: fl[4] == '1',
		}
		opts := &ed25519.Options{Verify: vo, Context: string(unhex(f[2]))}
		if f[1] == "ph" {
			opts.Hash = crypto.SHA512
		}
		pk, msg, sig := unhex(f[3]), unhex(f[4]), unhex(f[5])
		res := func() (r string) {
			defer func() {
				if e := recover(); e != nil {
					r = "panic"
				}
			}()
			if ed25519.VerifyWithOptions(pk, msg, sig, opts) {
				r = "1"
			} else {
				r = "0"
			}
			xp, err := ed25519.NewExpandedPublicKey(pk)
			x := "0"
			if err == nil && ed25519.VerifyExpandedWithOptions(xp, msg, sig, opts) {
				x = "1"
			}
			if x != r {
				r += " EXPANDED-DIFFERS:" + x
			}
			return
		}()
		std := "-"
		if fl == "11101" && f[1] == "pure" {
			if stded.Verify(pk, msg, sig) {
				std = "1"
			} else {
				std = "0"
			}
		}
		fmt.Fprintf(w, "%s %s\n", res, std)
	}
}
