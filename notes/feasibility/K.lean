namespace K
def p : Nat := 2^255 - 19
def d : Nat := 37095705934669439343138083508754565189542113879843219016388785533085940283555
structure Pt where (x y z t : Nat)
def Pt.add (a b : Pt) : Pt :=
  let A := (a.y + p - a.x) * (b.y + p - b.x) % p
  let B := (a.y + a.x) * (b.y + b.x) % p
  let C := a.t * (2 * d % p) % p * b.t % p
  let D := a.z * 2 % p * b.z % p
  let E := (B + p - A) % p
  let F := (D + p - C) % p
  let G := (D + C) % p
  let H := (B + A) % p
  ⟨E * F % p, G * H % p, F * G % p, E * H % p⟩
def B : Pt :=
  let x := 15112221349535400772501151409588531511454012693041857206046113283949847762202
  let y := 46316835694926478169428394003475163141307993866256225615783033603165251855960
  ⟨x, y, 1, x * y % p⟩
def O : Pt := ⟨0,1,1,0⟩
def smul : Nat → Nat → Pt → Pt
  | 0, _, _ => O
  | f+1, n, P => if n = 0 then O else
      let h := smul f (n/2) P
      let h2 := h.add h
      if n % 2 = 1 then h2.add P else h2
def Pt.eq (a b : Pt) : Bool := (a.x * b.z % p == b.x * a.z % p) && (a.y * b.z % p == b.y * a.z % p)
def L : Nat := 2^252 + 27742317777372353535851937790883648493
theorem LB : (smul 256 L B).eq O = true := by decide +kernel
end K
