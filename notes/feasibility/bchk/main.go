package main

import (
	"bufio"
	"crypto"
	"encoding/hex"
	"fmt"
	"math/rand"
	"os"
	"strings"

	"github.com/oasisprotocol/curve25519-voi/primitives/ed25519"
	"github.com/oasisprotocol/curve25519-voi/primitives/ed25519/extra/cache"
)

type tc struct {
	opts         *ed25519.Options
	pk, msg, sig []byte
	single       int // 0,1, 2=panic
	cofactorless bool
	tag          string
}

func unhex(s string) []byte {
	if s == "-" {
		return []byte{}
	}
	b, _ := hex.DecodeString(s)
	return b
}

func single(c *tc) (r int) {
	defer func() {
		if e := recover(); e != nil {
			r = 2
		}
	}()
	if ed25519.VerifyWithOptions(c.pk, c.msg, c.sig, c.opts) {
		return 1
	}
	return 0
}

func main() {
	sc := bufio.NewScanner(os.Stdin)
	sc.Buffer(make([]byte, 1<<20), 1<<20)
	var cases []*tc
	for sc.Scan() {
		f := strings.Split(sc.Text(), " ")
		fl := f[0]
		vo := &ed25519.VerifyOptions{AllowSmallOrderA: fl[0] == '1', AllowSmallOrderR: fl[1] == '1', AllowNonCanonicalA: fl[2] == '1', AllowNonCanonicalR: fl[3] == '1', CofactorlessVerify: fl[4] == '1'}
		o := &ed25519.Options{Verify: vo, Context: string(unhex(f[2]))}
		if f[1] == "ph" {
			o.Hash = crypto.SHA512
		}
		c := &tc{opts: o, pk: unhex(f[3]), msg: unhex(f[4]), sig: unhex(f[5]), cofactorless: fl[4] == '1', tag: f[6]}
		c.single = single(c)
		cases = append(cases, c)
	}
	rng := rand.New(rand.NewSource(5))
	var valid, invalid []*tc
	for _, c := range cases {
		if c.single == 1 {
			valid = append(valid, c)
		} else {
			invalid = append(invalid, c)
		}
	}
	bad := 0
	v := ed25519.NewBatchVerifier()
	cv := cache.NewVerifier(cache.NewLRUCache(3))
	sizes := []int{1, 2, 3, 37, 64, 93, 94, 95, 96, 189, 190, 191, 250}
	stats := map[string]int{}
	for round := 0; round < 400; round++ {
		n := sizes[rng.Intn(len(sizes))]
		mode := rng.Intn(4) // 0: all valid cofactored, 1: all valid any, 2: mostly valid, 3: random
		var batch []*tc
		for len(batch) < n {
			var c *tc
			switch mode {
			case 0:
				c = valid[rng.Intn(len(valid))]
				if c.cofactorless {
					continue
				}
			case 1:
				c = valid[rng.Intn(len(valid))]
			case 2:
				if rng.Intn(20) == 0 {
					c = invalid[rng.Intn(len(invalid))]
				} else {
					c = valid[rng.Intn(len(valid))]
				}
			default:
				c = cases[rng.Intn(len(cases))]
			}
			batch = append(batch, c)
		}
		v.Reset()
		force := rng.Intn(3) == 0
		if force {
			v.ForceNoPublicKeyExpansion()
		}
		useCache := rng.Intn(3) == 0
		for _, c := range batch {
			func() {
				defer func() {
					if e := recover(); e != nil {
						fmt.Println("PANIC in Add", c.tag, e)
						bad++
					}
				}()
				switch {
				case useCache:
					cv.AddWithOptions(v, c.pk, c.msg, c.sig, c.opts)
				case rng.Intn(2) == 0:
					v.AddWithOptions(c.pk, c.msg, c.sig, c.opts)
				default:
					x, _ := ed25519.NewExpandedPublicKey(c.pk)
					v.AddExpandedWithOptions(x, c.msg, c.sig, c.opts)
				}
			}()
		}
		all, bits := v.Verify(nil)
		only := v.VerifyBatchOnly(nil)
		expAll, expOnly := true, true
		for i, c := range batch {
			e := c.single == 1
			if bits[i] != e {
				bad++
				if bad < 10 {
					fmt.Println("ENTRY MISMATCH", c.tag, c.single, bits[i], "cofactorless", c.cofactorless)
				}
			}
			expAll = expAll && e
			// batch-only: valid under cofactored rules and not cofactorless and admissible
			expOnly = expOnly && e && !c.cofactorless
		}
		if all != expAll {
			bad++
			fmt.Println("ALL MISMATCH", all, expAll)
		}
		if only != expOnly {
			bad++
			fmt.Println("ONLY MISMATCH", only, expOnly, n, mode)
		}
		stats[fmt.Sprintf("mode%d all=%v only=%v", mode, all, only)]++
		// cache verifier vs single
		for _, c := range batch[:min(len(batch), 5)] {
			if len(c.pk) == 32 {
				r := func() (r int) {
					defer func() {
						if e := recover(); e != nil {
							r = 2
						}
					}()
					if cv.VerifyWithOptions(c.pk, c.msg, c.sig, c.opts) {
						return 1
					}
					return 0
				}()
				if r != c.single {
					bad++
					fmt.Println("CACHE MISMATCH", c.tag, r, c.single)
				}
			}
		}
	}
	fmt.Println("bad", bad, stats)
}

func min(a, b int) int {
	if a < b {
		return a
	}
	return b
}
