package main

import (
	"bufio"
	"encoding/hex"
	"fmt"
	"os"
	"strings"

	"github.com/oasisprotocol/curve25519-voi/curve/scalar"
)

func sc(h string) *scalar.Scalar {
	b, _ := hex.DecodeString(h)
	s, err := scalar.NewFromBits(b)
	if err != nil {
		panic(err)
	}
	return s
}
func hx(s *scalar.Scalar) string { var b [32]byte; _ = s.ToBytes(b[:]); return hex.EncodeToString(b[:]) }

func main() {
	in := bufio.NewScanner(os.Stdin)
	in.Buffer(make([]byte, 1<<20), 1<<20)
	w := bufio.NewWriter(os.Stdout)
	defer w.Flush()
	for in.Scan() {
		f := strings.Split(in.Text(), " ")
		switch f[0] {
		case "arith":
			a, b := sc(f[1]), sc(f[2])
			fmt.Fprintf(w, "%s %s %s %s %s\n", hx(scalar.New().Add(a, b)), hx(scalar.New().Sub(a, b)), hx(scalar.New().Mul(a, b)), hx(scalar.New().Neg(a)), hx(scalar.New().Reduce(a)))
		case "wide":
			b, _ := hex.DecodeString(f[1])
			s, _ := scalar.NewFromBytesModOrderWide(b)
			fmt.Fprintf(w, "%s\n", hx(s))
		case "pred":
			b, _ := hex.DecodeString(f[1])
			_, err := scalar.NewFromCanonicalBytes(b)
			s2, _ := scalar.NewFromBytesModOrder(b)
			fmt.Fprintf(w, "%v %v %s\n", scalar.ScMinimalVartime(b), err == nil, hx(s2))
		case "recode":
			a := sc(f[1])
			var sb strings.Builder
			r16 := a.ToRadix16()
			for _, d := range r16 {
				fmt.Fprintf(&sb, "%d,", d)
			}
			sb.WriteString(" ")
			for wdt := uint(2); wdt <= 8; wdt++ {
				n := a.NonAdjacentForm(wdt)
				for _, d := range n {
					fmt.Fprintf(&sb, "%d,", d)
				}
				sb.WriteString(" ")
			}
			for wdt := uint(6); wdt <= 8; wdt++ {
				n := a.ToRadix2w(wdt)
				for _, d := range n {
					fmt.Fprintf(&sb, "%d,", d)
				}
				sb.WriteString(" ")
			}
			fmt.Fprintln(w, sb.String())
		}
	}
}
