import random, subprocess
L=2**252+27742317777372353535851937790883648493
random.seed(7)
B=[0,1,2,7,8,L-2,L-1,L,L+1,L+2,2*L-1,2*L,2*L+1,8*L+3,15*L+L//2,2**252-1,2**252,2**252+1,2**253-1,2**253,2**254-1,2**254,2**255-1,2**255-2,2**255-19,
   int('7'*63,16)&(2**255-1),int('8'*63,16)&(2**255-1),int('f'*63,16)&(2**255-1), (1<<64)-1,(1<<64),(1<<128)-1,1<<128,(1<<192)-1,1<<192]
B+= [ (1<<k)-1 for k in range(1,256,5)]+[1<<k for k in range(0,255,5)]
B=[b%2**255 for b in B if b>=0]
h=lambda n,l=32:n.to_bytes(l,'little').hex()
lines=[]; meta=[]
for a in B:
    for b in B[:40]: lines.append(f"arith {h(a)} {h(b)}"); meta.append(('arith',a,b))
for _ in range(5000):
    a=random.getrandbits(255); b=random.getrandbits(255); lines.append(f"arith {h(a)} {h(b)}"); meta.append(('arith',a,b))
for n in [0,L-1,L,L+1,2**256-1,2**255,2**255+L-1,2**512-1,L*L,L*L-1,L<<256,(L<<256)-1,(L<<259)+5]+[random.getrandbits(512) for _ in range(3000)]:
    n%=2**512; lines.append(f"wide {h(n,64)}"); meta.append(('wide',n))
P=[0,1,L-1,L,L+1,2**252-1,2**252,2**253-1,2**253,2**255-1,2**255,2**255+1,2**256-1,2**255+L-1,2**255+L]
for dl in (1,2**64,2**128,2**192): P+=[L-dl,L+dl]
P+=[random.getrandbits(256) for _ in range(2000)]+[2**252+random.getrandbits(128) for _ in range(2000)]
for n in P: lines.append(f"pred {h(n)}"); meta.append(('pred',n))
R=B+[random.getrandbits(255) for _ in range(2000)]+[random.getrandbits(random.randint(1,255)) for _ in range(500)]
for n in R: lines.append(f"recode {h(n)}"); meta.append(('recode',n))
out=subprocess.run(['./scchk'],input="\n".join(lines)+"\n",capture_output=True,text=True).stdout.splitlines()
assert len(out)==len(lines)
le=lambda s:int.from_bytes(bytes.fromhex(s),'little')
bad=0
def chk(c,msg):
    global bad
    if not c:
        bad+=1
        if bad<10: print("FAIL",msg)
for m,o in zip(meta,out):
    if m[0]=='arith':
        _,a,b=m; r=[le(x) for x in o.split()]
        chk(r==[(a+b)%L,(a-b)%L,(a*b)%L,(-a)%L,a%L],('arith',a,b,r))
    elif m[0]=='wide':
        chk(le(o)==m[1]%L,('wide',m[1]))
    elif m[0]=='pred':
        n=m[1]; f=o.split(); chk(f[0]==str(n<L).lower() and f[1]==str(n<L).lower() and le(f[2])==n%L,('pred',n,o))
    else:
        n=m[1]; f=o.split(' ')
        r16=[int(x) for x in f[0].split(',') if x]
        chk(len(r16)==64 and sum(d*16**i for i,d in enumerate(r16))==n and all(-8<=d<8 for d in r16[:63]) and 0<=r16[63]<=8,('r16',n))
        for j,w in enumerate(range(2,9)):
            naf=[int(x) for x in f[1+j].split(',') if x]
            ok=len(naf)==256 and sum(d*2**i for i,d in enumerate(naf))==n
            nz=[i for i,d in enumerate(naf) if d]
            ok=ok and all(naf[i]%2 and abs(naf[i])<2**(w-1) for i in nz) and all(b-a>=w for a,b in zip(nz,nz[1:]))
            chk(ok,('naf',w,n))
        for j,w in enumerate((6,7,8)):
            dg=[int(x) for x in f[8+j].split(',') if x]
            dc=(254+w-1)//w; hint=(256+w-1)//w+(1 if w==8 else 0)
            ok=len(dg)==43 and sum(d*2**(w*i) for i,d in enumerate(dg))==n and all(d==0 for d in dg[hint:])
            ok=ok and all(-2**(w-1)<=d<2**(w-1) for d in dg[:dc-1]) and all(-128<=d<=127 for d in dg)
            chk(ok,('r2w',w,n,dg[dc-2:dc+2]))
print('lines',len(lines),'bad',bad)
