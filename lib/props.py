"""Per-property configuration of bin/check: streams (name, quick budget), theorem obligations, translators."""

TRUSTED_BASE = [
    "Lean 4.33.0 kernel (and leanchecker in the thorough tier)",
    "axioms propext, Classical.choice, Quot.sound only; no native_decide, no bv_decide, no sorry",
    "the Lean Spec statements (hand-transcribed RFC algorithms, Voi/Spec) and Lean SHA-2/Keccak (validated against Go's on every run, stream H0)",
    "the Go harness + line protocol + diff (go/harness, bin/check)",
    "Go compiler, runtime and standard library; the CPU",
]

PROPS = {
    "C01": dict(
        level="translation_validation",
        streams=[("V1", 3000)],
        configs_quick=["default", "purego"],
        configs_thorough=["default", "noavx2", "purego", "force32bit"],
        theorems={},
        explanation="Go VerifyWithOptions / VerifyExpandedWithOptions / crypto/ed25519.Verify vs the declarative Lean predicate Spec.Ed25519.verify",
    ),
    "C02": dict(
        level="translation_validation",
        streams=[("K1", 1500)],
        configs_quick=["default", "purego"],
        configs_thorough=["default", "noavx2", "purego", "force32bit"],
        theorems={},
    ),
}
NOT_YET = {}
