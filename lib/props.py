"""Per-property configuration of bin/check: streams (name, quick budget), theorem obligations, translators."""

TRUSTED_BASE = [
    "Lean 4.33.0 kernel (and leanchecker in the thorough tier)",
    "axioms propext, Classical.choice, Quot.sound only; no native_decide, no bv_decide, no sorry",
    "the Lean Spec statements (hand-transcribed RFC algorithms, Voi/Spec) and Lean SHA-2/Keccak (validated against Go's on every run: streams S0, H1 and every stream that hashes)",
    "the Go harness + line protocol + diff (go/harness, bin/check)",
    "Go compiler, runtime and standard library; the CPU",
]

Q4 = ["default", "purego", "force32bit"]
T4 = ["default", "noavx2", "purego", "force32bit"]

STROBE_THMS = ["Voi.Props.StrobeInv." + n for n in """permute_size access_in_range runF_ok duplexByte_ok duplexLoop_ok duplex_ok
beginOp_ok operate_ok operate_no_oob operate_inv new_ok run_inv run_no_oob history_from_new newTranscript_ok appendMessage_ok
extractBytes_ok rekey_ok finalize_ok read_ok oob_is_live posBegin_lt_256 operate_uninit operate_mismatch duplexLoop_append
operate_append AD_append MetaAD_append KEYm_append PRFm_add operate_chunks clone_independent origin_independent clone_same_step""".split()]

LAT_INV = ["Voi.Props.LatticeInv." + n for n in """inv_init inv_swap inv_narrow inv_update inv_head inv_loop inv_run fsv_congr
fsv_congr_emod fsv_ne_zero fsv_short fsv_fitsI128 fsv_d1_not_dvd fsv_d1_emod_ne_zero fsv_d1_ne_zero lagrange update_decreases
loop_terminates fsv_terminates loop_mono rinv_loop fsv_rangeOk fsvChecked_ok fsvChecked_ne_rangeViolation fsv_total_correct fsv_partial""".split()]
LAT_REF = ["Voi.Props.LatticeRefine." + n for n in """sval_wrap addShifted_wrap subShifted_wrap fromInt512_wrap head_sim update_sim loop_sim
refines fsvW_eq_fsv no_model_mismatch""".split()]

BATCH_THMS = ["Voi.Props.BatchInv." + n for n in """inv_init inv_step inv_run reset_init precompute_safe verify_eq verify_conj
verifyBatchOnly_eq verifyBatchOnly_panic_iff modeOf_eq verify_true_admissible serialVerdict_plain serialVerdict_expand admit_expand
verify_after_history verifyBatchOnly_after_history""".split()]
L0_THMS = {"Voi.Props.L0." + n: ["Voi.Props.L0." + n] for n in """FieldU64_feMulGeneric FieldU64_fePow2kGeneric1 FieldU64_reduce FieldU64_Add
FieldU64_Sub FieldU64_Neg FieldU64_Mul121666 FieldU64_Square2 FieldU64_SetBytes FieldU64_SetBytesWide FieldU64_ToBytes FieldU64_ConditionalSelect
FieldU64_ConditionalSwap FieldU64_ConditionalAssign FieldAsm_feMul FieldAsm_fePow2k1 FieldU32_Mul FieldU32_Pow2k1 FieldU32_reduce FieldU32_Add FieldU32_Sub FieldU32_Neg
FieldU32_Mul121666 FieldU32_Square2 FieldU32_SetBytes FieldU32_SetBytesWide FieldU32_ToBytes FieldU32_ConditionalSelect FieldU32_ConditionalSwap
FieldU32_ConditionalAssign ScalarU64_scalarMulInternal ScalarU64_squareInternal ScalarU64_MontgomeryReduce ScalarU64_Add ScalarU64_Sub
ScalarU64_SetBytes ScalarU64_ToBytes ScalarU64_FromMontgomery ScalarU64_MontgomeryMul ScalarU32_scalarMulInternal ScalarU32_squareInternal
ScalarU32_MontgomeryReduce ScalarU32_Add ScalarU32_Sub ScalarU32_SetBytes ScalarU32_ToBytes ScalarU32_FromMontgomery ScalarU32_MontgomeryMul""".split()}
L0_FIELD = {k: v for k, v in L0_THMS.items() if "Field" in k}
L0_SCALAR = {k: v for k, v in L0_THMS.items() if "Scalar" in k}
# the limb arithmetic every curve-level property stands on (Mul121666 is used by the Montgomery ladder only)
L0_FIELD_CORE = {k: v for k, v in L0_FIELD.items() if "Mul121666" not in k}
IR_CORE = {"Voi.IR.Check": ["Voi.IR.check_sound", "Voi.IR.run_sound", "Voi.IR.srun_sound", "Voi.IR.wrapsOK_sound"]}
CACHE_THMS = ["Voi.Props.CacheInv." + n for n in """upsert_spec verify_transparent verifyExpanded_expand verify_eq_spec addToBatch_transparent
cacheOK_run verify_after_history""".split()]

LRU_THMS = ["Voi.Props.LRUInv." + n for n in """inv_new inv_get inv_put inv_put_nil inv_step inv_run cap_step refine_get refine_put refine_step
refine_run put_evicts_lru put_no_evict put_hit Spec.items_run Spec.get_returns_put binding_from_put get_returns_put Spec.keys_eq_stack
list_eq_stack""".split()]
LIN_THMS = ["Voi.Props.LinearizeSound." + n for n in "search_sound search_complete linearizable_iff".split()]

TOTAL_THMS = ["Voi.Props.TotalInv." + n for n in """recvDecode_len recvDecode_err recvDecode_cases recvDecode_ok recvDecode_no_panic newDecode_len newDecode_cases newDecode_err newDecode_no_panic ofOption_no_panic ofOption_err ceySetBytes_len ceySetBytes_err ceySetBytes_iff ceyUnmarshal_len ceyUnmarshal_err ceyUnmarshal_ok ceyNew_len epUnmarshal_len epUnmarshal_err epSetCompressed_len epSetCompressed_err epSetMontgomery_len epSetMontgomery_err epSetMontgomery_sign crSetBytes_len crSetBytes_err crUnmarshal_len crUnmarshal_err rpUnmarshal_len rpUnmarshal_err rpSetCompressed_len rpSetCompressed_err rpSetUniform_len rpSetUniform_err rpSetUniform_iff mpSetBytes_len mpSetBytes_err mpSetBytes_iff scSetModOrder_len scSetModOrder_err scSetModOrder_iff scSetWide_len scSetWide_err scSetWide_iff scSetCanonical_len scSetCanonical_err scSetCanonical_iff scSetBits_len scSetBits_err scSetBits_iff scUnmarshal_len scUnmarshal_err scNewModOrder_len scNewWide_len scNewCanonical_len scNewBits_len scMinimal_len scToBytes_len scToBytes_ok scNaf_panic scRadix2w_panic scRadixHint_panic msmEd_panic msmEdx_panic msmRist_panic msmRistx_panic edMode_default edVerifyWithOptions_panic edVerify_panic edVerifyWithOptions_total edVerify_sig_len edVerifyExpandedWithOptions_panic edVerifyExpanded_no_panic edBatchEntry_panic edBatchEntry_total verify_pk_len edBatchEntry_pk_len cacheVerifyWithOptions_panic cacheVerifyWithOptions_pk_len cacheVerify_no_panic edNewExpanded_len edNewKey_panic edSign_panic edPkSign_panic edPkSign_err vrfProve_len vrfProve_panic vrfProveRnd_len vrfProveRnd_entropy vrfProveRnd_no_panic vrfVerify_total vrfVerify_pk_len vrfHash_len vrfHash_no_panic normal_not_runtime d4EdPriv_panic d5Public_panic d5Seed_panic xX25519_len xX25519_no_panic xX25519Base_len xEdPub_len h2cXmd_len h2cXof_len h2cXmd_no_panic h2cXof_no_panic h2cRO_no_panic h2cNU_no_panic h2cRist_no_panic h2cXmd_small_hash appendMessage_tooLong extractBytes_tooLong newTranscript_tooLong mSeq_ok mSeq_panic mSeq_no_fault rekey_tooLong mRng_ok mRng_no_fault srSigUnmarshal_len srPkUnmarshal_len srSkUnmarshal_len srKpUnmarshal_len srMskUnmarshal_len srSigUnmarshal_spec srPkUnmarshal_spec srSkUnmarshal_spec srKpUnmarshal_spec srMskUnmarshal_spec srSigUnmarshal_err srPkUnmarshal_err srKpUnmarshal_err srSkUnmarshal_err srMskUnmarshal_err srSigNew_len srPkNew_len srSkNew_len srSkEdNew_len srKpNew_len srMskNew_len toL_length commitBytes_ok newSigningContext_ok newTranscriptBytes_ok deriveVerifyChallengeScalar_ok verify_ok pk_unmarshal_compressed sig_unmarshal_r srVerify_total srVerify_bad_len""".split()]
C07_THMS = ["Voi.Props.C07." + n for n in """step_eq step_eq_core step_eq_zmod swap_schedule_eq swap_schedule_eq_255 mul_eq_rfc mul_eq_rfc_nat
scalarMult_eq_rfc scalarMult_eq_rfc_32 checked_error_iff checked_eq checked_ok checked_basepoint_error_iff clampScalar_eq_decodeScalar
clampScalar_lt clampScalar_testBit clampScalar_testBit_32 edPrivToX25519_eq edPublicKeyToX25519_eq dh_symmetric_transfer toZ_add toZ_mul toZ_pow toZ_inv""".split()]

C17_THMS = ["Voi.Props.C17." + n for n in """bits_value bits_value_mod naf_value naf_defined naf_shape r16_value r16_bounds r16_bounds_wide r2w_value r2w_defined r2w_bounds r16_abs_le_8 naf5_digits naf8_digits r2w_bucket_index bits_ok naf_shape_ok r16_ok r2w_ok""".split()]

import json as _json, os as _os
_REG = _json.load(open(_os.path.join(_os.path.dirname(_os.path.abspath(__file__)), "theorems.json")))


def reg(*mods):
    """obligations registered in lib/theorems.json (committed list of fully qualified theorem names per module)"""
    return {m: list(_REG[m]) for m in mods}


LAT_FOR_C01 = {}

PROPS = {
    "C01": dict(
        level="proof",
        streams=[("V1", 3000), ("V2", 2000), ("L1", 1500)], configs_quick=Q4, configs_thorough=T4,  # L1: the lattice reduction behind the cofactored equation
        gens=["go2ir"],
        # the two Pred_* obligations: the S < L test and the canonical-encoding test of the real code (regenerated decision trees)
        theorems=reg("Voi.Props.C01", "Voi.Props.C01Concrete", "Voi.Proofs.ConcreteIface", "Voi.Proofs.GroupOrder", "Voi.Props.LatticeFuel",
                     "Voi.Props.L0.Pred_ScMinimalVartime", "Voi.Props.L0.Pred_IsCanonicalVartime", "Voi.Props.ScMinimal",
                     "Voi.Props.PredBridgeSc", "Voi.Props.PredBridge"),
        explanation="Go VerifyWithOptions / VerifyExpandedWithOptions / crypto/ed25519.Verify vs the declarative Lean predicate Spec.Ed25519.verify",
    ),
    "C02": dict(level="proof", streams=[("K1", 1500)], configs_quick=Q4, configs_thorough=T4, theorems=reg("Voi.Props.C02", "Voi.Props.C01Concrete")),
    "C03": dict(level="proof", streams=[("G1", 1500), ("G2", 800),
                                        # every routine also from 16 goroutines at once (scratch space must be per call)
                                        ("G1", 600, {"parallel": 16, "configs": ["default", "purego"]}),
                                        # a burst of adjacent Pippenger-sized requests: many goroutines inside the bucket method at once
                                        ("G3", 48, {"parallel": 16, "configs": ["default", "purego"]})], configs_quick=T4, configs_thorough=T4, thorough_mult=4,
                theorems=reg("Voi.Props.C03", "Voi.Props.C03.Basic", "Voi.Props.C03.Buckets", "Voi.Proofs.SpecBridge", "Voi.Proofs.EdwardsCurve", "Voi.Proofs.EdwardsExt", "Voi.Proofs.Ed25519Group", "Voi.Proofs.Primes")),
    "C04": dict(level="proof", gens=["go2ir"], streams=[("T0", 6000), ("F2", 5000), ("G1", 600)], configs_quick=["default", "purego", "force32bit"], configs_thorough=T4,
                theorems={**IR_CORE, **L0_FIELD, **reg("Voi.Proofs.SqrtRatio")}),
    "C05": dict(level="proof", gens=["go2ir"], streams=[("S1", 4000), ("T0", 4000)], configs_quick=["default", "force32bit"], configs_thorough=T4,
                theorems={**IR_CORE, **L0_SCALAR, **reg("Voi.Props.L0.Pred_ScMinimalVartime", "Voi.Props.ScMinimal", "Voi.Props.PredBridgeSc")}),
    "C07": dict(level="proof", streams=[("X1", 2500)], configs_quick=Q4, configs_thorough=T4, theorems={"Voi.Props.C07": C07_THMS}),
    "C09": dict(level="proof", streams=[("B1", 1500), ("C1", 1500)], configs_quick=Q4, configs_thorough=T4, thorough_mult=4,
                theorems={"Voi.Props.BatchInv": BATCH_THMS, "Voi.Props.CacheInv": CACHE_THMS}),
    "C10": dict(level="proof", streams=[("D1", 3000)], configs_quick=Q4, configs_thorough=T4, gens=["go2ir"], theorems=reg("Voi.Props.C10", "Voi.Proofs.SqrtRatio", "Voi.Props.L0.Pred_IsCanonicalVartime", "Voi.Props.PredBridge")),
    "C11": dict(level="proof", streams=[("T1", 3000), ("T1", 800, {"parallel": 16, "configs": ["default", "purego"]}),
                                        ("T3", 64, {"parallel": 16, "configs": ["default", "purego"]})], configs_quick=Q4, configs_thorough=T4, theorems=reg("Voi.Props.C11")),
    "C12": dict(level="proof", gens=["go2ir"], streams=[("Q1", 2500), ("M1", 2000)], configs_quick=Q4, configs_thorough=T4,
                theorems=reg("Voi.Props.C12", "Voi.Props.L0.Pred_ScMinimalVartime", "Voi.Props.ScMinimal", "Voi.Props.PredBridgeSc")),
    "C13": dict(level="proof", streams=[("M1", 4000), ("S0", 2000), ("M2", 1500),
                                        # transcripts advanced concurrently must not interfere (both Keccak implementations)
                                        ("M2", 3000, {"parallel": 16, "configs": ["default", "purego"]})], configs_quick=Q4, configs_thorough=T4,
                theorems={"Voi.Props.StrobeInv": STROBE_THMS}),
    "C14": dict(level="proof", gens=["consts"], streams=[("H1", 2500), ("H2", 2000), ("H3", 2000)], configs_quick=Q4, configs_thorough=T4,
                theorems=reg("Voi.Props.C14", "Voi.Props.C14.Expand", "Voi.Props.C14.HashWF", "Voi.Props.C14.U2F", "Voi.Props.C14.Elligator", "Voi.Props.C14.Consts")),
    "C15": dict(level="proof", gens=["go2ir"], streams=[("E1", 2000), ("E2", 1500)], configs_quick=Q4, configs_thorough=T4,
                theorems=reg("Voi.Props.C15", "Voi.Props.L0.Pred_ScMinimalVartime", "Voi.Props.ScMinimal", "Voi.Props.PredBridgeSc")),
    "C16": dict(level="proof", streams=[("L1", 3000), ("G1", 600)], configs_quick=Q4, configs_thorough=T4,
                theorems={"Voi.Props.LatticeInv": LAT_INV, "Voi.Props.LatticeRefine": LAT_REF, **reg("Voi.Props.LatticeFuel")}),
    "C18": dict(level="proof", streams=[("C2", 3000), ("C1", 800),
                                        # the stateless API workload executed from 16 goroutines sharing all package-level state;
                                        # replies must equal the sequential model; once more under the Go race detector
                                        ("K1", 1200, {"parallel": 16, "configs": ["default"]}), ("V1", 1500, {"parallel": 16, "configs": ["default"]}),
                                        ("X1", 800, {"parallel": 16, "configs": ["default"]}), ("G1", 400, {"parallel": 16, "configs": ["default"]}), ("G3", 48, {"parallel": 16, "configs": ["default", "purego"]}), ("T3", 64, {"parallel": 16, "configs": ["default"]}),
                                        ("E1", 300, {"parallel": 16, "configs": ["default"]}), ("H2", 400, {"parallel": 16, "configs": ["default"]}),
                                        ("K1", 300, {"parallel": 16, "race": True, "configs": ["default"]}), ("V1", 300, {"parallel": 16, "race": True, "configs": ["default"]}),
                                        ("X1", 200, {"parallel": 16, "race": True, "configs": ["default"]}),
                                        # whole transcript histories from 16 goroutines, assembly and portable Keccak
                                        ("M2", 3000, {"parallel": 16, "configs": ["default", "purego"]}),
                                        ("M2", 400, {"parallel": 16, "race": True, "configs": ["purego"]}),
                                        # the LRU histories (their concurrent stress phases included) under the race detector
                                        ("C2", 600, {"race": True, "configs": ["default"]})],
                configs_quick=Q4, configs_thorough=T4,
                theorems={"Voi.Props.LRUInv": LRU_THMS, "Voi.Props.LinearizeSound": LIN_THMS}),
    "C17": dict(level="proof", streams=[("R1", 8000), ("G1", 600)], configs_quick=["default", "force32bit"], configs_thorough=T4, theorems={"Voi.Props.C17": C17_THMS}),
}
PROPS["C19"] = dict(level="proof", streams=[("P1", 26000), ("M1", 2000),
                                                # the per-protocol streams carry their own malformed/boundary inputs (a panic is a reply the model never gives)
                                                ("E1", 600), ("V1", 800), ("D1", 800), ("T1", 600), ("Q1", 600), ("H1", 500), ("X1", 600), ("B1", 300), ("L1", 800), ("C1", 400)], configs_quick=Q4, configs_thorough=T4, thorough_mult=1,
                    theorems={"Voi.Props.TotalInv": TOTAL_THMS})
PROPS["C08"] = dict(level="other", gens=["go2ir", "ct"], custom="ct",
                    technique="regenerated model (go2ir): symbolic execution of the real SSA with every secret symbolic; outcome table and IR leak-freedom "
                              "checked by the Lean kernel; differential correspondence (T0) validates the translator", streams=[("T0", 3000)], configs_quick=["purego", "force32bit"], configs_thorough=T4,
                    theorems={"Voi.Props.C08": ["Voi.Props.C08.ir_leak_const", "Voi.Props.C08.run_steps_const", "Voi.Props.C08.ct_table_ok", "Voi.Props.C08.ct_table_size"]},
                    explanation="symbolic execution of the real SSA with all secret inputs symbolic (go2ir -ct) for 100+ entry point x backend pairs incl. negative controls; "
                                "outcome table re-checked by the Lean kernel; IR programs are branch-free by construction; assembly covered by a committed control-flow skeleton; "
                                "stream T0 validates the symbolic executor's output programs against the real functions")
PROPS["C06"] = dict(level="proof", gens=["go2ir", "consts"],
                    streams=[("V1", 700), ("K1", 400), ("G1", 900), ("S1", 1500), ("D1", 900), ("X1", 700), ("T1", 800), ("M1", 1200), ("S0", 800),
                             ("H1", 700), ("H2", 500), ("E1", 400), ("Q1", 500), ("B1", 400), ("R1", 1200), ("L1", 600), ("F2", 2500), ("T0", 4000), ("K0", 2200), ("G2", 300)],
                    configs_quick=T4, configs_thorough=T4, thorough_mult=5,
                    theorems={**IR_CORE, **L0_FIELD, **L0_SCALAR},
                    explanation="every exported operation is compared with the SAME Lean model in all four build configurations (so the configurations agree with each other); "
                                "the limb-level obligations hold for both limb backends against the same specifications (same right-hand sides), the assembly entry points are "
                                "compared with the IR programs of the generic source through the abstraction function (T0 @-entries)")
C20_THMS = """Voi.Props.C20.base_table_u64 Voi.Props.C20.base_table_u32 Voi.Props.C20.ristretto_base_table Voi.Props.C20.odd_multiples_of_B_u64 Voi.Props.C20.odd_multiples_of_B_u32 Voi.Props.C20.odd_multiples_of_B_shl_128_u64 Voi.Props.C20.odd_multiples_of_B_shl_128_u32 Voi.Props.C20.Base0.rows Voi.Props.C20.Base1.rows Voi.Props.C20.Base2.rows Voi.Props.C20.Base3.rows Voi.Props.C20.Base4.rows Voi.Props.C20.Base5.rows Voi.Props.C20.Base6.rows Voi.Props.C20.Base7.rows Voi.Props.C20.Field.edwards_d Voi.Props.C20.Field.edwards_d2 Voi.Props.C20.Field.minus_one Voi.Props.C20.Field.sqrt_ad_minus_one Voi.Props.C20.Field.invsqrt_a_minus_d Voi.Props.C20.Field.one_minus_d_sq Voi.Props.C20.Field.d_minus_one_sq Voi.Props.C20.Field.sqrt_m1 Voi.Props.C20.Field.field_minus_one Voi.Props.C20.Field.field_one Voi.Props.C20.Field.field_two Voi.Props.C20.Field.aplus2_over_four Voi.Props.C20.Field.elligator_zero Voi.Props.C20.Field.montgomery_a Voi.Props.C20.Field.montgomery_neg_a Voi.Props.C20.Field.montgomery_a_squared Voi.Props.C20.Field.montgomery_sqrt_neg_a_plus_two Voi.Props.C20.Field.montgomery_u_factor Voi.Props.C20.Field.montgomery_v_factor Voi.Props.C20.Field.field_enc_agree Voi.Props.C20.OddB.entries Voi.Props.C20.OddB.shl128_entries_as_multiples_of_P Voi.Props.C20.OddBShl0.entries Voi.Props.C20.OddBShl1.entries Voi.Props.C20.Points.specB Voi.Props.C20.Points.specB_order Voi.Props.C20.Points.B_eq Voi.Props.C20.Points.B128_eq Voi.Props.C20.Points.basepoint_u64 Voi.Props.C20.Points.basepoint_u32 Voi.Props.C20.Points.ristretto_basepoint_u64 Voi.Props.C20.Points.ristretto_basepoint_u32 Voi.Props.C20.Points.b_shl_128_u64 Voi.Props.C20.Points.b_shl_128_u32 Voi.Props.C20.Points.b_shl_128_toPt_u64 Voi.Props.C20.Points.b_shl_128_toPt_u32 Voi.Props.C20.Points.b_shl_128_Z_ne_one Voi.Props.C20.Points.T1_order_eight Voi.Props.C20.Points.eight_torsion_u64 Voi.Props.C20.Points.eight_torsion_u32 Voi.Props.C20.Points.spec_torsion Voi.Props.C20.Points.eight_torsion_distinct Voi.Props.C20.Points.eight_torsion_alias_u64 Voi.Props.C20.Points.eight_torsion_alias_u32 Voi.Props.C20.Points.ed25519_basepoint_compressed Voi.Props.C20.Points.ristretto_basepoint_compressed Voi.Props.C20.Points.x25519_basepoint Voi.Props.C20.Points.noncanonical_sign_bits Voi.Props.C20.Points.bytes_enc_agree Voi.Props.C20.Points.packed_sizes Voi.Props.C20.Points.points_enc_agree Voi.Props.C20.Scalar.spec_L Voi.Props.C20.Scalar.basepoint_order Voi.Props.C20.Scalar.order_words Voi.Props.C20.Scalar.const_L Voi.Props.C20.Scalar.const_R Voi.Props.C20.Scalar.const_RR Voi.Props.C20.Scalar.montgomery_radix Voi.Props.C20.Scalar.scalar_enc_agree Voi.Props.C20.Scalar.ell_lower_half Voi.Props.C20.Scalar.i128_zero_one Voi.Props.C20.Scalar.i512_one Voi.Props.C20.TablesAgree.shape_u64 Voi.Props.C20.TablesAgree.shape_u32 Voi.Props.C20.TablesAgree.aliases Voi.Props.C20.TablesAgree.tables_enc_agree""".split()
PROPS["C20"] = dict(level="proof", gens=["consts"], streams=[("K0", 2200)], configs_quick=T4, configs_thorough=T4, thorough_mult=1,
                    theorems={"Voi.Props.C20": C20_THMS},
                    explanation="every package-level constant and table entry (both limb encodings), dumped by interpreting the real initialisers, equals its defining value: kernel-evaluated; "
                                "the run-time tables (incl. the AVX2 tables built in init) are compared exhaustively by stream K0 in four configurations")
# Foundations: a property above the limb level also re-checks the regenerated limb-level obligations of the arithmetic it
# executes, so that a rare-input defect below it (a dropped carry at 2^-38) breaks ITS check and not only C04/C05's.
for _k, _found in {"C01": {**L0_FIELD_CORE, **L0_SCALAR}, "C02": {**L0_FIELD_CORE, **L0_SCALAR}, "C03": L0_FIELD_CORE, "C07": L0_FIELD,
                   "C09": {**L0_FIELD_CORE, **L0_SCALAR}, "C10": L0_FIELD_CORE, "C11": L0_FIELD_CORE, "C12": {**L0_FIELD_CORE, **L0_SCALAR},
                   "C14": L0_FIELD_CORE, "C15": {**L0_FIELD_CORE, **L0_SCALAR}}.items():
    PROPS[_k]["theorems"] = {**IR_CORE, **_found, **PROPS[_k]["theorems"]}
    PROPS[_k]["gens"] = sorted(set(PROPS[_k].get("gens") or []) | {"go2ir"})
    # … and the independent value-level streams of that arithmetic (field API; scalar API where scalars are involved)
    _have = {x[0] for x in PROPS[_k]["streams"]}
    if "F2" not in _have:
        PROPS[_k]["streams"] = PROPS[_k]["streams"] + [("F2", 1500)]
    if _found is not L0_FIELD_CORE and _found is not L0_FIELD and "S1" not in _have:
        PROPS[_k]["streams"] = PROPS[_k]["streams"] + [("S1", 1200)]
# Field-level programs (go2ir -flevel): the formulas of curve/models.go / edwards.go / montgomery.go and the addition chains of
# field.go are REGENERATED; these theorems are about the regenerated programs (value: FL.Curve/Models/Field; limb-bound
# chaining through both backends against the contracts the L0 obligations prove: FL.Bounds).
_FL_CURVE = reg("Voi.Props.FL.Curve", "Voi.Props.FL.Models", "Voi.Props.FL.Encoding")
_FL_FIELD = reg("Voi.Props.FL.Field", "Voi.Props.FL.Sqrt")
_FL_BOUNDS = reg("Voi.Props.FL.Bounds", "Voi.FIR.Sound", "Voi.Props.FL.Link", "Voi.Props.FL.Link32")
PROPS["C14"]["theorems"] = {**PROPS["C14"]["theorems"], **reg("Voi.Props.FL.Elligator", "Voi.Props.FL.Sqrt")}
PROPS["C14"]["gens"] = sorted(set(PROPS["C14"].get("gens") or []) | {"go2ir", "flevel"})
PROPS["C14"]["streams"] = PROPS["C14"]["streams"] + [("T2", 3000, {"configs": ["purego", "force32bit"]})]
for _k, _t in {"C03": {**_FL_CURVE, **_FL_BOUNDS}, "C04": {**_FL_FIELD, **_FL_BOUNDS}, "C06": {**_FL_BOUNDS, **reg("Voi.Props.FL.Backends")}, "C07": {**_FL_FIELD, **_FL_BOUNDS, **reg("Voi.Props.FL.Montgomery")},
               "C10": {**_FL_CURVE, **reg("Voi.Props.FL.Sqrt")}, "C11": {**_FL_CURVE, **reg("Voi.Props.FL.Sqrt", "Voi.Props.FL.Ristretto"), **_FL_BOUNDS}}.items():
    PROPS[_k]["theorems"] = {**PROPS[_k]["theorems"], **_t}
    PROPS[_k]["gens"] = sorted(set(PROPS[_k].get("gens") or []) | {"go2ir", "flevel"})
    # T2: the real functions against the regenerated field-level programs (validates the field-level translator); serial builds only
    PROPS[_k]["streams"] = PROPS[_k]["streams"] + [("T2", 3000, {"configs": ["purego", "force32bit"]})]
# Every API-level property also executes its own request stream from 16 goroutines sharing all package-level state: scratch
# space moved to package level "to save an allocation" is invisible to a sequential run (seeds C07-m8, C03-m8, C11-m8).
for _k, _s in {"C01": ("V1", 800), "C02": ("K1", 500), "C05": ("S1", 1200), "C07": ("X1", 800), "C10": ("D1", 800), "C14": ("H2", 500),
               "C15": ("E1", 400), "C17": ("R1", 1500), "C16": ("L1", 800), "C04": ("F2", 1500)}.items():
    if not any(x[0] == _s[0] and len(x) > 2 and x[2].get("parallel") for x in PROPS[_k]["streams"]):
        PROPS[_k]["streams"] = PROPS[_k]["streams"] + [(_s[0], _s[1], {"parallel": 16, "configs": ["default", "purego"]})]
# … and once more under the Go race detector, which reports unsynchronised sharing whether or not the interleaving corrupts a
# result in this run (seed C07-m8: a nanosecond window between a copy into a shared buffer and its first use)
for _k, _s in {"C01": ("V1", 300), "C02": ("K1", 200), "C03": ("G1", 300), "C07": ("X1", 400), "C11": ("T1", 300), "C14": ("H2", 300), "C15": ("E1", 200)}.items():
    if not any(x[0] == _s[0] and len(x) > 2 and x[2].get("race") for x in PROPS[_k]["streams"]):
        PROPS[_k]["streams"] = PROPS[_k]["streams"] + [(_s[0], _s[1], {"parallel": 16, "race": True, "configs": ["default"]})]
NOT_YET = {}
for _k, _c in PROPS.items():
    assert _c.get("configs_quick") and _c.get("configs_thorough"), "property %s lacks a configuration list" % _k
    _v = [(x[0], (x[2].get("parallel"), x[2].get("race")) if len(x) > 2 else None) for x in _c["streams"]]
    assert len(_v) == len(set(_v)), "property %s lists a stream variant twice" % _k


LEVEL_TEXT = {
    "proof": "Lean 4 theorems about a model (listed by name, rebuilt and axiom-audited on every run) carry the stated part of the property for all inputs/histories; "
             "the model is tied to the current source by regeneration (go2ir) and/or differential correspondence with the real code in 3-4 build configurations. "
             "DESIGN.md section 6 says which clauses are theorems and which are carried by correspondence only.",
    "translation_validation": "the real code is compared with the executable Lean Spec/Model on structured boundary-heavy request streams in 3-4 build configurations; "
                              "the theorems for this property are still being written (DESIGN.md section 6), so no proof is claimed yet.",
    "other": "symbolic execution of the real SSA with all secret inputs symbolic (support, not proof) + kernel-checked outcome table + branch-free IR by construction; see DESIGN.md section 6/7 (C08).",
}
for _p, _c in PROPS.items():
    _c.setdefault("level_text", LEVEL_TEXT[_c["level"]])
    _c.setdefault("design_ref", "DESIGN.md section 6 (%s), section 7 (trusted base and limits)" % _p)
