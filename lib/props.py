"""Per-property configuration of bin/check: streams (name, quick budget), theorem obligations, translators."""

TRUSTED_BASE = [
    "Lean 4.33.0 kernel (and leanchecker in the thorough tier)",
    "axioms propext, Classical.choice, Quot.sound only; no native_decide, no bv_decide, no sorry",
    "the Lean Spec statements (hand-transcribed RFC algorithms, Voi/Spec) and Lean SHA-2/Keccak (validated against Go's on every run, stream H0)",
    "the Go harness + line protocol + diff (go/harness, bin/check)",
    "Go compiler, runtime and standard library; the CPU",
]

Q4 = ["default", "purego"]
T4 = ["default", "noavx2", "purego", "force32bit"]

STROBE_THMS = ["Voi.Props.StrobeInv." + n for n in """permute_size access_in_range runF_ok duplexByte_ok duplexLoop_ok duplex_ok
beginOp_ok operate_ok operate_no_oob operate_inv new_ok run_inv run_no_oob history_from_new newTranscript_ok appendMessage_ok
extractBytes_ok rekey_ok finalize_ok read_ok oob_is_live posBegin_lt_256 operate_uninit operate_mismatch duplexLoop_append
operate_append AD_append MetaAD_append KEYm_append PRFm_add operate_chunks clone_independent origin_independent clone_same_step""".split()]

LAT_INV = ["Voi.Props.LatticeInv." + n for n in """inv_init inv_swap inv_narrow inv_update inv_head inv_loop inv_run fsv_congr
fsv_congr_emod fsv_ne_zero fsv_short fsv_fitsI128 fsv_d1_not_dvd fsv_d1_emod_ne_zero fsv_d1_ne_zero lagrange update_decreases
loop_terminates fsv_terminates loop_mono rinv_loop fsv_rangeOk fsvChecked_ok fsvChecked_ne_rangeViolation fsv_total_correct fsv_partial""".split()]
LAT_REF = ["Voi.Props.LatticeRefine." + n for n in """sval_wrap addShifted_wrap subShifted_wrap fromInt512_wrap head_sim update_sim loop_sim
refines fsvW_eq_fsv no_model_mismatch""".split()]

PROPS = {
    "C01": dict(
        level="translation_validation",
        streams=[("V1", 3000)], configs_quick=Q4, configs_thorough=T4, theorems={},
        explanation="Go VerifyWithOptions / VerifyExpandedWithOptions / crypto/ed25519.Verify vs the declarative Lean predicate Spec.Ed25519.verify",
    ),
    "C02": dict(level="translation_validation", streams=[("K1", 1500)], configs_quick=Q4, configs_thorough=T4, theorems={}),
    "C03": dict(level="translation_validation", streams=[("G1", 1500)], configs_quick=T4, configs_thorough=T4, thorough_mult=4, theorems={}),
    "C05": dict(level="translation_validation", streams=[("S1", 4000)], configs_quick=["default", "force32bit"], configs_thorough=T4, theorems={}),
    "C07": dict(level="translation_validation", streams=[("X1", 2500)], configs_quick=Q4, configs_thorough=T4, theorems={}),
    "C10": dict(level="translation_validation", streams=[("D1", 3000)], configs_quick=Q4, configs_thorough=T4, theorems={}),
    "C11": dict(level="translation_validation", streams=[("T1", 3000)], configs_quick=Q4, configs_thorough=T4, theorems={}),
    "C13": dict(level="proof", streams=[("M1", 4000), ("S0", 2000)], configs_quick=Q4, configs_thorough=T4,
                theorems={"Voi.Props.StrobeInv": STROBE_THMS}),
    "C14": dict(level="translation_validation", streams=[("H1", 2500), ("H2", 2000)], configs_quick=Q4, configs_thorough=T4, theorems={}),
    "C15": dict(level="translation_validation", streams=[("E1", 2000)], configs_quick=Q4, configs_thorough=T4, theorems={}),
    "C16": dict(level="proof", streams=[("L1", 3000)], configs_quick=Q4, configs_thorough=T4,
                theorems={"Voi.Props.LatticeInv": LAT_INV, "Voi.Props.LatticeRefine": LAT_REF}),
    "C17": dict(level="translation_validation", streams=[("R1", 4000)], configs_quick=["default", "force32bit"], configs_thorough=T4, theorems={}),
}
NOT_YET = {}
