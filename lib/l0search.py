"""Failing-input search for a broken limb-level (L0) obligation.

Given the name of a theorem `Voi.Props.L0.<Group>_<fn>` that no longer checks, look for a concrete input of the REAL
Go function on which the committed specification fails:
  1. corner + random inputs inside the specification's precondition, run through the real function (harness stream T0),
     outputs evaluated against the specification dumped from Lean (bounds, congruence) and the regenerated IR program
     evaluated for a machine-width wrap that loses bits (when the spec says noWrap);
  2. for noWrap specs: an SMT query (z3 bit-vectors, a support tool — never a substitute for the theorem) for an input that
     makes a particular `wrap` instruction lose bits; the model is then replayed on the real function as in 1.
Returns (request_line, explanation) or None.
"""
import json, os, random, subprocess, sys

VERIF = os.path.dirname(os.path.dirname(os.path.abspath(__file__)))
LEAN = os.path.join(VERIF, "lean")


def load_specs():
    r = subprocess.run(["lake", "env", "lean", "--run", "Voi/Props/L0/DumpSpecs.lean"], cwd=LEAN, stdout=subprocess.PIPE, stderr=subprocess.PIPE, text=True)
    specs = {}
    for l in r.stdout.splitlines():
        try:
            j = json.loads(l)
            specs[j["name"]] = j
        except Exception:
            pass
    return specs


def load_ir(name):
    path = os.environ.get("VERIF_IR", os.path.join(VERIF, "build/gen/ir.txt"))
    for l in open(path):
        parts = l.rstrip("\n").split(" ; ")
        hd = parts[0].split()
        if len(hd) >= 4 and hd[0] == "prog" and hd[1] == name:
            nin = int(hd[2])
            outs = [int(x) for x in hd[4].split(",")] if len(hd) > 4 and hd[4] else []
            ops = [p.split() for p in parts[1:]]
            return nin, outs, ops
    return None


def run_ir(nin, ops, ins):
    """returns (env, list of (index, operand value, k) for lossy wraps)"""
    e = list(ins)
    lossy = []
    for i, o in enumerate(ops):
        k = o[0]
        a = [int(x) for x in o[1:]]
        if k == "const":
            v = a[0]
        elif k == "add":
            v = e[a[0]] + e[a[1]]
        elif k == "mul":
            v = e[a[0]] * e[a[1]]
        elif k == "subw":
            v = (e[a[0]] + (1 << a[2]) - e[a[1]] % (1 << a[2])) % (1 << a[2])
        elif k == "shr":
            v = e[a[0]] >> a[1]
        elif k == "shl":
            v = e[a[0]] << a[1]
        elif k in ("low", "wrap"):
            v = e[a[0]] % (1 << a[1])
            if k == "wrap" and e[a[0]] >= (1 << a[1]):
                lossy.append((nin + i, e[a[0]], a[1]))
        elif k == "and":
            v = e[a[0]] & e[a[1]]
        elif k == "or":
            v = e[a[0]] | e[a[1]]
        elif k == "xor":
            v = e[a[0]] ^ e[a[1]]
        else:
            raise ValueError(k)
        e.append(v)
    return e, lossy


def eval_spec(spec, ins, outs):
    """returns None if the spec holds on (ins, outs), else a description"""
    for j, (o, hi) in enumerate(zip(outs, spec["post_hi"])):
        if o > hi:
            return "output %d = %d exceeds its bound %d" % (j, o, hi)
    if "modulus" in spec:
        lhs = sum(w * o for w, o in zip(spec["weights"], outs))
        rhs = 0
        for c, mono in spec["rhs"]:
            t = c
            for v in mono:
                t *= ins[v]
            rhs += t
        d = lhs - rhs
        m = spec["modulus"]
        if (m == 0 and d != 0) or (m != 0 and d % m != 0):
            return "value wrong: sum(w_j*out_j) - rhs(inputs) is not 0 modulo %d" % m
    return None


def z3_lossy(nin, ops, spec, budget_s=60):
    """inputs (within pre) that make some wrap instruction lose bits, via z3 bit-vectors; returns list of input vectors"""
    try:
        import z3
    except Exception:
        return []
    W = 200
    found = []
    # candidate wraps by a cheap interval pass
    hi = list(spec["pre_hi"])
    cands = []
    for i, o in enumerate(ops):
        k = o[0]
        a = [int(x) for x in o[1:]]
        if k == "const":
            h = a[0]
        elif k == "add":
            h = hi[a[0]] + hi[a[1]]
        elif k == "mul":
            h = hi[a[0]] * hi[a[1]]
        elif k == "subw":
            h = (1 << a[2]) - 1
        elif k == "shr":
            h = hi[a[0]] >> a[1]
        elif k == "shl":
            h = hi[a[0]] << a[1]
        elif k in ("low", "wrap"):
            if k == "wrap" and hi[a[0]] >= (1 << a[1]):
                cands.append(i)
            h = min(hi[a[0]], (1 << a[1]) - 1)
        elif k == "and":
            h = min(hi[a[0]], hi[a[1]])
        else:
            h = (1 << max(hi[a[0]].bit_length(), hi[a[1]].bit_length())) - 1
        if h >= 1 << (W - 2):
            return []
        hi.append(h)
    per = max(5, budget_s // max(1, len(cands)))
    for ci in cands[:12]:
        xs = [z3.BitVec("x%d" % i, W) for i in range(nin)]
        s = z3.Solver()
        s.set("timeout", per * 1000)
        for x, h, l in zip(xs, spec["pre_hi"], spec["pre_lo"]):
            s.add(z3.ULE(x, z3.BitVecVal(h, W)), z3.UGE(x, z3.BitVecVal(l, W)))
        e = list(xs)
        for i, o in enumerate(ops[: ci + 1]):
            k = o[0]
            a = [int(x) for x in o[1:]]
            if k == "const":
                v = z3.BitVecVal(a[0], W)
            elif k == "add":
                v = e[a[0]] + e[a[1]]
            elif k == "mul":
                v = e[a[0]] * e[a[1]]
            elif k == "subw":
                m = z3.BitVecVal((1 << a[2]) - 1, W)
                v = (e[a[0]] + z3.BitVecVal(1 << a[2], W) - (e[a[1]] & m)) & m
            elif k == "shr":
                v = z3.LShR(e[a[0]], a[1])
            elif k == "shl":
                v = e[a[0]] << a[1]
            elif k in ("low", "wrap"):
                v = e[a[0]] & z3.BitVecVal((1 << a[1]) - 1, W)
            elif k == "and":
                v = e[a[0]] & e[a[1]]
            elif k == "or":
                v = e[a[0]] | e[a[1]]
            else:
                v = e[a[0]] ^ e[a[1]]
            e.append(v)
        a = [int(x) for x in ops[ci][1:]]
        s.add(z3.UGE(e[a[0]], z3.BitVecVal(1 << a[1], W)))
        if s.check() == z3.sat:
            m = s.model()
            found.append([m.eval(x, model_completion=True).as_long() for x in xs])
            if len(found) >= 3:
                break
    return found


def corner_inputs(spec, rnd, n):
    his, los = spec["pre_hi"], spec["pre_lo"]
    k = len(his)
    out = [list(his), list(los), [max(l, h - 1) for l, h in zip(los, his)]]
    for i in range(k):
        v = list(los)
        v[i] = his[i]
        out.append(v)
        v = list(his)
        v[i] = los[i]
        out.append(v)
    while len(out) < n:
        mode = rnd.randrange(4)
        v = []
        for l, h in zip(los, his):
            if mode == 0:
                x = rnd.randint(l, h)
            elif mode == 1:
                x = rnd.choice([l, h, max(l, h - 1), min(h, l + 1), rnd.randint(l, h)])
            elif mode == 2:
                b = rnd.randrange(h.bit_length() + 1)
                x = min(h, max(l, (1 << b) - rnd.randrange(3)))
            else:
                x = h - rnd.randrange(min(h - l, 1 << 20) + 1)
            v.append(x)
        out.append(v)
    return out


def search(thm_name, harness_for, seed=1, n=30000):
    """thm_name: 'FieldU64_Mul121666'; harness_for(cfg) -> path of a built harness binary"""
    specs = load_specs()
    spec = specs.get(thm_name)
    if spec is None:
        return None
    group, fn = thm_name.split("_", 1)
    prog = group + "." + fn
    ir = load_ir(prog)
    if ir is None:
        return None
    nin, outs_idx, ops = ir
    cfg = "force32bit" if group.endswith("U32") else ("default" if group == "FieldAsm" else "purego")
    vh = harness_for(cfg)
    if vh is None:
        return None
    rnd = random.Random(seed)
    cands = corner_inputs(spec, rnd, n)
    if spec.get("noWrap"):
        cands = z3_lossy(nin, ops, spec) + cands
    tmp = os.path.join(os.path.dirname(vh), "l0search.req")
    with open(tmp, "w") as f:
        for v in cands:
            f.write("T0 run %s %s\n" % (prog, " ".join(str(x) for x in v)))
    r = subprocess.run([vh, "-replay", tmp, "-out", tmp + ".go"], stdout=subprocess.PIPE, stderr=subprocess.STDOUT, text=True)
    if r.returncode != 0:
        return None
    for v, rep in zip(cands, open(tmp + ".go").read().splitlines()):
        f = rep.split()
        if not f or f[0] != "ok":
            continue
        outs = [int(x) for x in f[1:]]
        why = eval_spec(spec, v, outs)
        if why is None and spec.get("noWrap"):
            _, lossy = run_ir(nin, ops, v)
            if lossy:
                why = "a %d-bit machine operation silently wraps (IR value %d = %d >= 2^%d)" % (lossy[0][2], lossy[0][0], lossy[0][1], lossy[0][2])
        if why is not None:
            return ("T0 run %s %s" % (prog, " ".join(str(x) for x in v)), "specification %s violated by the real function (config %s): %s; go outputs %s" % (thm_name, cfg, why, outs), cfg)
    return None


if __name__ == "__main__":
    # usage: l0search.py <theorem short name> <purego harness> <force32bit harness> <seed>
    nm, vp, v32, sd = sys.argv[1], sys.argv[2], sys.argv[3], int(sys.argv[4])
    vdef = sys.argv[5] if len(sys.argv) > 5 else vp
    w = search(nm, lambda c: v32 if c == "force32bit" else (vdef if c == "default" else vp), seed=sd)
    print(json.dumps(w))
