"""Failing-input search for a broken decision-tree obligation (Voi.Props.L0.Pred_<name>).

The regenerated tree (text form in build/gen/ir.txt, line `tree Pred.<name> …`) is what the real function does on every
path.  For every leaf: path condition ∧ (leaf value ≠ specification) is handed to z3 (bit-vectors wide enough that nothing
wraps); a model is a concrete 32-byte input on which the real function and the specification disagree.  The SMT solver
only proposes inputs — each is then replayed on the real function by the caller; it never discharges anything.
usage: predsearch.py <name> [ir.txt]   → prints a JSON list of hex strings
"""
import json, os, sys

VERIF = os.path.dirname(os.path.dirname(os.path.abspath(__file__)))
L = 2**252 + 27742317777372353535851937790883648493
P = 2**255 - 19
W = 320


def tokenize(s):
    out, cur = [], ""
    for ch in s:
        if ch in "()|;":
            if cur.strip():
                out.append(cur.strip())
            out.append(ch)
            cur = ""
        else:
            cur += ch
    if cur.strip():
        out.append(cur.strip())
    return out


def parse(tokens, i):
    """( N ops | cond (T) (E) )  or  ( L ops | outs ) ; ops separated by ';' ; returns (node, next index)"""
    assert tokens[i] == "(", tokens[i:i + 3]
    i += 1
    ops = []
    kind = None
    # first token: "N op…" or "L op…" or just "N"/"L"
    while tokens[i] != "|":
        t = tokens[i]
        i += 1
        if t == ";":
            continue
        f = t.split()
        if kind is None:
            kind = f[0]
            f = f[1:]
        if f:
            ops.append(f)
    i += 1  # '|'
    if kind == "L":
        outs = []
        while tokens[i] != ")":
            outs += [int(x) for x in tokens[i].replace(",", " ").split()]
            i += 1
        return ("L", ops, outs), i + 1
    cond = int(tokens[i])
    i += 1
    th, i = parse(tokens, i)
    el, i = parse(tokens, i)
    assert tokens[i] == ")"
    return ("N", ops, cond, th, el), i + 1


def load_tree(name, path):
    for l in open(path):
        if l.startswith("tree Pred.%s " % name):
            hd, rest = l.split("(", 1)
            nin = int(hd.split()[2])
            node, _ = parse(tokenize("(" + rest.strip()), 0)
            return nin, node
    return None


def search(name, path):
    import z3
    t = load_tree(name, path)
    if t is None:
        return []
    nin, root = t
    xs = [z3.BitVec("b%d" % i, W) for i in range(nin)]
    rng = [z3.ULT(x, 256) for x in xs]
    v = sum((xs[i] << (8 * i) for i in range(1, nin)), xs[0])
    if name == "ScMinimalVartime":
        spec = z3.ULT(v, z3.BitVecVal(L, W))
    elif name == "IsCanonicalVartime":
        y = v & z3.BitVecVal(2**255 - 1, W)
        sign = z3.LShR(v, 255) == 1
        spec = z3.And(z3.ULT(y, z3.BitVecVal(P, W)), z3.Not(z3.And(sign, z3.Or(y == 1, y == P - 1))))
    else:
        return []
    found = []
    one, zero = z3.BitVecVal(1, W), z3.BitVecVal(0, W)

    def ev(env, ops):
        env = list(env)
        for o in ops:
            k, a = o[0], [int(x) for x in o[1:]]
            m = lambda n: z3.BitVecVal((1 << n) - 1, W)
            if k == "const":
                r = z3.BitVecVal(a[0], W)
            elif k == "add":
                r = env[a[0]] + env[a[1]]
            elif k == "mul":
                r = env[a[0]] * env[a[1]]
            elif k == "subw":
                r = (env[a[0]] + z3.BitVecVal(1 << a[2], W) - (env[a[1]] & m(a[2]))) & m(a[2])
            elif k == "shr":
                r = z3.LShR(env[a[0]], a[1])
            elif k == "shl":
                r = env[a[0]] << a[1]
            elif k in ("low", "wrap"):
                r = env[a[0]] & m(a[1])
            elif k == "and":
                r = env[a[0]] & env[a[1]]
            elif k == "or":
                r = env[a[0]] | env[a[1]]
            elif k == "xor":
                r = env[a[0]] ^ env[a[1]]
            elif k == "lt":
                r = z3.If(z3.ULT(env[a[0]], env[a[1]]), one, zero)
            elif k == "eq":
                r = z3.If(env[a[0]] == env[a[1]], one, zero)
            else:
                raise ValueError(k)
            env.append(r)
        return env

    def walk(node, env, path):
        if len(found) >= 8:
            return
        if node[0] == "L":
            env2 = ev(env, node[1])
            out = env2[node[2][0]]
            s = z3.Solver()
            s.set("timeout", 20000)
            s.add(rng + path)
            s.add((out != 0) != spec)
            if s.check() == z3.sat:
                m = s.model()
                b = bytes(m.eval(x, model_completion=True).as_long() for x in xs)
                found.append(b.hex())
            return
        env2 = ev(env, node[1])
        c = env2[node[2]] != 0
        walk(node[3], env2, path + [c])
        walk(node[4], env2, path + [z3.Not(c)])

    sys.setrecursionlimit(10000)
    walk(root, xs, [])
    return found


if __name__ == "__main__":
    nm = sys.argv[1]
    path = sys.argv[2] if len(sys.argv) > 2 else os.environ.get("VERIF_IR", os.path.join(VERIF, "build/gen/ir.txt"))
    try:
        print(json.dumps(search(nm, path)))
    except Exception as ex:  # best effort
        sys.stderr.write("predsearch: %s\n" % ex)
        print("[]")
