"""Control-flow / addressing skeleton of the hand-written and generated assembly files (C08, limits: assembly is modelled,
not verified).  For every TEXT symbol: the ordered list of control-transfer instructions and of memory operands that use
an index register.  The committed skeleton (lib/asm_skeleton.json) was reviewed by hand: the only conditional jumps are
loop counters initialised from immediates / the public repetition count, and every indexed operand is driven by such a
counter.  A change to the skeleton is reported as a broken obligation."""
import json, os, re, sys

FILES = ["internal/field/field_u64_amd64.s", "curve/window_amd64.s", "curve/edwards_vector_amd64.s", "internal/strobe/keccakf_amd64.s"]


def skeleton(repo):
    out = {}
    for f in FILES:
        p = os.path.join(repo, f)
        if not os.path.exists(p):
            out[f] = "MISSING"
            continue
        cur = None
        sk = {}
        for line in open(p):
            line = line.split("//")[0].strip()
            if not line:
                continue
            m = re.match(r"TEXT\s+([^,(]+)", line)
            if m:
                cur = m.group(1).strip("·")
                sk[cur] = []
                continue
            if cur is None:
                continue
            if re.match(r"^[A-Za-z_0-9]+:$", line):
                sk[cur].append("label " + line[:-1])
                continue
            parts = line.split(None, 1)
            mn = parts[0]
            ops = parts[1] if len(parts) > 1 else ""
            if re.match(r"^(J[A-Z]+|CALL|RET|LOOP[A-Z]*|CMOV[A-Z]+|SET[A-Z]+)$", mn):
                sk[cur].append((mn + " " + ops).strip())
            else:
                idx = re.findall(r"\([A-Z0-9]+\)\([A-Z0-9]+\*[1248]\)", ops)
                if idx:
                    sk[cur].append(mn + " idx " + ",".join(idx))
        out[f] = sk
    return out


def check(repo, allow_path):
    cur = skeleton(repo)
    want = json.load(open(allow_path))
    diffs = []
    for f in FILES:
        if cur.get(f) != want.get(f):
            a, b = want.get(f), cur.get(f)
            if isinstance(a, dict) and isinstance(b, dict):
                for fn in sorted(set(a) | set(b)):
                    if a.get(fn) != b.get(fn):
                        diffs.append("%s:%s control-flow/indexed-addressing skeleton changed: was %s now %s" % (f, fn, str(a.get(fn))[:200], str(b.get(fn))[:200]))
            else:
                diffs.append("%s: %s -> %s" % (f, str(a)[:80], str(b)[:80]))
    return diffs


if __name__ == "__main__":
    if sys.argv[1] == "init":
        json.dump(skeleton(sys.argv[2]), open(sys.argv[3], "w"), indent=1)
    else:
        for d in check(sys.argv[2], sys.argv[3]):
            print(d)
